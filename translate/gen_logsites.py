"""kmip/**/*.py (tests and demos excluded) -> gen/LogSites.v   (tie T of C20, fail closed)

Lists, with Python `ast` only (nothing is imported from the repo):

  * every `<logger>.<level>(...)` call               -> KLog level
  * every `raise C(...)` (and `raise`, `raise e`)    -> KRaise pk     (pk: C is a class defined by the package)
  * every result message handed to a client          -> KResultMsg    (`build_error_response(_, _, m)`,
                                                                        `result_message = m`, `ResultMessage(m)`)
  * every print / warnings.warn / traceback.print_* / sys.std*.write  -> KPrint

and, for each, the *syntactic class* of every piece of the text: literal pieces of the format string
and one class per formatted argument.  Classification is a conservative whitelist (shape rules that
hold for every file + a per-file table of expression texts built by reading each site).  Anything not
recognised is `SUnknown`; expressions that are recognisably secret-bearing are `SSecret`.  Both make
`site_ok` false for an observable site, i.e. break the obligation `logsites_safe`.

Fail closed (raise) on: a logger-like call through an unknown receiver, `logger.log(...)`, a
`logging.getLogger` result stored under an unexpected name, syntax errors, a `raise` form not understood.
"""
import ast
import re
import string
from pathlib import Path

LEVELS = {'debug': 'LDebug', 'info': 'LInfo', 'warning': 'LWarning', 'warn': 'LWarning', 'error': 'LError',
          'exception': 'LException', 'critical': 'LCritical', 'fatal': 'LCritical'}
LOGGER_RECEIVERS = {'self._logger', 'self.logger', 'logger', 'logging', 'LOGGER', 'log', 'self.log', 'self._log'}
# receivers with a method named like a level that are not loggers (none today; listed explicitly when one appears)
NOT_LOGGERS = set()

SAFE = ('SWire', 'STemplate', 'SUid', 'SOpName', 'STypeName', 'SEnumName', 'SAttrName', 'SNum', 'STime', 'SVersion',
        'SClientText', 'SServerMsg')

# ---------------------------------------------------------------------------------------------------------
# Whitelist.  Key: expression text as printed by ast.unparse.  Built by reading every site of the file.
# '*' applies to every file (only shapes/names whose meaning is uniform across the package).
# A (function, expression) key restricts an entry to one function.
# ---------------------------------------------------------------------------------------------------------
ENG = 'kmip/services/server/engine.py'
CRY = 'kmip/services/server/crypto/engine.py'
SES = 'kmip/services/server/session.py'
SRV = 'kmip/services/server/server.py'
MON = 'kmip/services/server/monitor.py'
CFG = 'kmip/services/server/config.py'
SLG = 'kmip/services/server/auth/slugs.py'
PIE = 'kmip/pie/client.py'
KCL = 'kmip/services/kmip_client.py'
KPR = 'kmip/services/kmip_protocol.py'
POB = 'kmip/pie/objects.py'
PFA = 'kmip/pie/factory.py'
PRI = 'kmip/core/primitives.py'
COB = 'kmip/core/objects.py'
CAT = 'kmip/core/attributes.py'
CPO = 'kmip/core/policy.py'
CEN = 'kmip/core/enums.py'
CHE = 'kmip/core/config_helper.py'

WL = {
    '*': {
        # protocol version objects / enum
        'kmip_version.value': 'SVersion',
        # Python types used as "expected type" in TypeError texts
        'int': 'STypeName', 'bool': 'STypeName', 'str': 'STypeName', 'bytes': 'STypeName',
        'six.integer_types': 'STypeName', 'six.string_types': 'STypeName', 'enums.Types': 'STypeName',
        'data_type': 'STypeName', 'list': 'STypeName', 'dict': 'STypeName',
        'i': 'SNum',                                   # loop index in validators ("item {i} has type ...")
        # format-string constants of kmip/core/exceptions.py
        'exceptions.ErrorStrings.BAD_EXP_RECV': 'STemplate',
        'exceptions.ErrorStrings.BAD_ENCODING': 'STemplate',
    },
    ENG: {
        'operation': 'SOpName',                        # _kmip_version_supported: the decorator's operation name literal
        'self._protocol_version': 'SVersion',
        'protocol_version': 'SVersion',
        'header.protocol_version': 'SVersion',
        'then': 'STime', 'now': 'STime',
        'unique_identifier': 'SUid', 'uid': 'SUid', 'encryption_key_uuid': 'SUid',
        'name': 'SAttrName',                           # _process_template_attribute: attribute.attribute_name.value
        'attribute_name': 'SAttrName',
        'attribute_index': 'SNum',
        'attribute_value': 'SClientText',              # DeleteAttribute: the attribute *value* object named by the client
        'policy_name': 'SClientText', 'group': 'SClientText',
        'date_type.value': 'SAttrName',                # enums.AttributeType member value = attribute name
        'date_type': 'SAttrName',
        'operation.name.title()': 'SOpName',
        'wrapping_method': 'SEnumName', 'encoding_option': 'SEnumName',
        'value.name': 'SEnumName', 'attribute.name': 'SEnumName', 'mask_value.name': 'SEnumName',
    },
    CRY: {
        'algorithm': 'SEnumName', 'length': 'SNum', 'public_exponent': 'SNum',
        'encryption_algorithm': 'SEnumName', 'decryption_algorithm': 'SEnumName', 'cipher_mode': 'SEnumName',
        'hashing_algorithm': 'SEnumName', 'padding_method': 'SEnumName', 'hash_algorithm': 'SEnumName',
        'derivation_method': 'SEnumName', 'key_wrap_algorithm': 'SEnumName', 'wrapping_method': 'SEnumName',
        'padding': 'SEnumName', 'signing_algorithm': 'SEnumName',
    },
    SES: {
        'self.name': 'SClientText',                    # session name: 8 hex digits of a uuid chosen by the server
        'client_identity[0]': 'SClientText',           # user id (certificate CN / SLUGS user)
        'client_identity': 'SClientText',
        'plugin_name': 'SClientText',                  # auth plugin section name of the server configuration
        'self._max_response_size': 'SNum',
    },
    SRV: {
        "self.config.settings.get('hostname')": 'SClientText',
        "self.config.settings.get('port')": 'SNum',
        'thread.name': 'SClientText', 'session_name': 'SClientText',
        'address[0]': 'SClientText', 'address[1]': 'SNum',
    },
    MON: {'f': 'SClientText', 'p': 'SClientText', 'policy': 'SClientText'},     # policy file / policy names
    CFG: {'setting': 'SClientText', 's': 'SClientText', 'path': 'SClientText'},  # configuration keys / paths
    SLG: {'user_id': 'SClientText', 'response.status_code': 'SNum'},     # HTTP status of the SLUGS answer
    PIE: {
        'status': 'SEnumName', 'reason': 'SEnumName', 'message': 'SServerMsg',
        "result.get('result_reason')": 'SEnumName', "result.get('result_message')": 'SServerMsg',
    },
    KCL: {
        'config_file': 'SClientText', 'self.host': 'SClientText', 'operation': 'SOpName',
        'conf.DEFAULT_TIMEOUT': 'SNum',
        'batch_item.result_status.value': 'SEnumName', 'batch_item.result_reason.value': 'SEnumName',
        'batch_item.result_message.value': 'SServerMsg',
        'self.keyfile': 'SClientText', 'self.certfile': 'SClientText', 'self.ca_certs': 'SClientText',
        'self.cert_reqs': 'SEnumName', 'ssl.CERT_REQUIRED': 'SEnumName', 'self.ssl_version': 'SEnumName',
        'ssl.PROTOCOL_SSLv23': 'SEnumName', 'self.do_handshake_on_connect': 'SEnumName',
        'self.suppress_ragged_eofs': 'SEnumName',
    },
    KPR: {'total_bytes_to_be_read': 'SNum', 'bytes_read': 'SNum'},
    POB: {
        'i': 'SNum', 'self.cryptographic_length': 'SNum', 'self._valid_formats': 'SEnumName',
    },
    PFA: {'key.key_format_type': 'SEnumName', 'format_type': 'SEnumName'},
    PRI: {
        # SWire = a field of the request being decoded (tag 3 bytes, type 1, length 4, padding 1-4, Boolean 8),
        # echoed as a number: request *content* (known finding C20-decoder-field-echo)
        ('Base.read_tag', 'hex(tag)'): 'SWire', ('Base.read_type', 'typ'): 'SWire',
        ('Integer.read_value', 'self.length'): 'SWire', ('Integer.read_value', 'pad'): 'SWire',
        ('LongInteger.read', 'self.length'): 'SWire', ('BigInteger.read', 'self.length'): 'SWire',
        ('TextString.read_value', 'pad'): 'SWire', ('ByteString.read_value', 'pad'): 'SWire',
        ('Boolean.read_value', 'value'): 'SWire',
        'extra': 'SNum', 'min_bytes': 'SNum', 'num_bytes': 'SNum',
        'hex(self.tag.value)': 'SNum', 'self.type.value': 'SNum', 'self.LENGTH': 'SNum',
        ('Base.write_length', 'self.length'): 'SNum',
        'self.LENGTH_SIZE': 'SNum', 'LongInteger.LENGTH': 'SNum', 'Enumeration.LENGTH': 'SNum',
        'Interval.LENGTH': 'SNum',
        'self.enum': 'STypeName',
        ('Enumeration.validate', 'self.value'): 'SEnumName',   # the (wrongly typed) enumeration member
    },
    COB: {
        'enum_name': 'SAttrName', 'tag.name': 'SEnumName', 'i + 1': 'SNum',
        # validators: "invalid X; expected <class>, received <the wrongly typed value>"
        # KeyValue.read() stores a KeyMaterialStruct when the key material is a Structure; that is the only
        # non-KeyMaterial value the decode path can produce.  It is rendered by the default object repr
        # (class name + address) - checked on every run: OBJ:<Class> is safe only while neither the class nor
        # its package bases define __str__ / __repr__ / __format__.
        ('KeyValue.__validate', 'self.key_material'): 'OBJ:KeyMaterialStruct',
        ('KeyValue.__validate', 'self.attributes[i]'): 'SClientText', ('KeyValue.__validate', 'self.attributes'): 'SClientText',
        'self.extension_name': 'SClientText', 'self.extension_tag': 'SClientText', 'self.extension_type': 'SClientText',
    },
    CAT: {
        ('Digest.__validate', 'self.hashing_algorithm'): 'SClientText',   # wrongly typed Digest fields (a digest is
        ('Digest.__validate', 'self.digest_value'): 'SClientText',        # a hash of the object, not key material)
        ('Digest.__validate', 'self.key_format_type'): 'SClientText',
        'name': 'STypeName', 'member': 'SAttrName',            # Name.__validate: class / member names (literals)
        "'{0}.{1}'.format(name, member)": 'STypeName',
    },
    CPO: {
        'object_type': 'SClientText', 'operation': 'SClientText', 'permission': 'SClientText',   # policy file text
        'path': 'SClientText', 'name': 'SClientText', 'invalid_sections.pop()': 'SClientText',
    },
    CEN: {'value': 'SAttrName'},                               # convert_attribute_name_to_tag / tag_to_name
    CHE: {'filenames': 'SClientText', 'config_option_name': 'SClientText', 'CONFIG_FILE': 'SClientText',
          'ARG_MSG': 'STemplate', 'CONF_MSG': 'STemplate', 'DEFAULT_MSG': 'STemplate'},
    'kmip/core/messages/contents.py': {'i + 1': 'SNum'},
    'kmip/core/messages/payloads/discover_versions.py': {'self.protocol_versions[i]': 'SVersion', 'self.protocol_versions': 'SVersion'},
    'kmip/core/messages/payloads/rekey_key_pair.py': {
        'self.private_key_uuid': 'SUid', 'self.offset': 'SNum', 'self.common_template_attribute': 'SClientText',
        'self.private_key_template_attribute': 'SClientText', 'self.public_key_template_attribute': 'SClientText'},
    'kmip/core/messages/payloads/get_attribute_list.py': {'i + 1': 'SNum'},
    'kmip/core/messages/payloads/get_attributes.py': {'i + 1': 'SNum'},
    'kmip/core/factories/attribute_values.py': {'name': 'SAttrName', 'enum': 'SEnumName'},
    'kmip/core/factories/secrets.py': {'secret_type': 'SEnumName'},
    'kmip/core/factories/credentials.py': {'credential_type': 'SEnumName'},
    'kmip/core/factories/payloads/__init__.py': {'operation': 'SOpName'},
}

# Debug helpers that nothing in the package references (checked on every run: a reference anywhere in the
# scanned files turns the site back into an ordinary KPrint site, which then fails the obligation).
DEAD_HELPERS = {('kmip/core/utils.py', 'print_bytearray')}

# attribute leaves that are safe on every receiver
SAFE_LEAF = {'unique_identifier': 'SUid'}

# Recognisably secret-bearing expressions (reported as SSecret rather than SUnknown; both fail).
SECRET_NAME = re.compile(
    r'(^|[._])(key|keys|key_bytes|key_value|key_material|value|data|plain_?text|cipher_?text|payload|request|response|'
    r'message|msg|buffer|sbuffer|password|passwd|credential|credentials|secret|iv|iv_counter_nonce|nonce|salt|'
    r'derivation_data|wrapped|signature|mac_data|auth_tag|encoding|stream|managed_object|obj)($|[._\[(])', re.I)
SECRET_CALLS = ('binascii.hexlify', 'repr', 'hexlify', 'base64.b64encode', 'bytes', 'bytearray', 'vars', 'dir')


def _unq(node):
    return ast.unparse(node)


class FileScan(ast.NodeVisitor):
    def __init__(self, rel, tree, pk_classes, referenced=(), classes=None, refs_by_file=None):
        self.classes = classes or {}
        self.refs_by_file = refs_by_file or {}
        self._calls = None
        self.rel = rel
        self.referenced = referenced
        self.tree = tree
        self.pk = pk_classes
        self.wl = dict(WL['*'])
        self.wl.update({k: v for k, v in WL.get(rel, {}).items() if not isinstance(k, tuple)})
        self.wl_fn = {k: v for k, v in WL.get(rel, {}).items() if isinstance(k, tuple)}
        self.scope = []           # names of enclosing classes / functions
        self.fnodes = []          # enclosing FunctionDef nodes
        self.handlers = []        # enclosing except handlers: (name, [classes])
        self.sites = []

    # ---------------------------------------------------------------- traversal
    def visit_ClassDef(self, n):
        self.scope.append(n.name)
        self.generic_visit(n)
        self.scope.pop()

    def visit_FunctionDef(self, n):
        self.scope.append(n.name)
        self.fnodes.append(n)
        saved, self.handlers = self.handlers, []
        self.generic_visit(n)
        self.handlers = saved
        self.fnodes.pop()
        self.scope.pop()

    visit_AsyncFunctionDef = visit_FunctionDef

    def visit_ExceptHandler(self, n):
        if n.type is None:
            classes = ['BaseException']
        elif isinstance(n.type, ast.Tuple):
            classes = [_unq(x) for x in n.type.elts]
        else:
            classes = [_unq(n.type)]
        classes = [c.split('.')[-1] if c.split('.')[0] in ('exceptions', 'kmip') else c for c in classes]
        self.handlers.append((n.name, classes))
        self.generic_visit(n)
        self.handlers.pop()

    def func(self):
        return '.'.join(self.scope) or '<module>'

    def add(self, node, kind, cls, parts):
        if (self.rel, self.func()) in DEAD_HELPERS and self.func() not in self.referenced:
            kind = 'KDead'
        self.sites.append({'file': self.rel, 'line': node.lineno, 'end': getattr(node, 'end_lineno', node.lineno),
                           'func': self.func(), 'kind': kind, 'cls': cls, 'parts': parts})

    # ---------------------------------------------------------------- sites
    def visit_Call(self, n):
        f = n.func
        if isinstance(f, ast.Attribute):
            recv = _unq(f.value)
            if f.attr in LEVELS or f.attr == 'log':
                looks = recv in LOGGER_RECEIVERS or 'log' in recv.lower()
                if looks and recv not in LOGGER_RECEIVERS:
                    raise ValueError('%s:%d: logging call through an unknown receiver %r' % (self.rel, n.lineno, recv))
                if recv in LOGGER_RECEIVERS:
                    if f.attr == 'log':
                        raise ValueError('%s:%d: logger.log(level, ...) is not understood' % (self.rel, n.lineno))
                    if any(k.arg not in ('exc_info', 'stack_info', 'extra', 'stacklevel') for k in n.keywords):
                        raise ValueError('%s:%d: unexpected keyword in logging call' % (self.rel, n.lineno))
                    self.add(n, 'KLog ' + LEVELS[f.attr], recv, self.log_parts(n))
                elif recv not in NOT_LOGGERS and f.attr in ('exception', 'critical', 'warning', 'warn', 'debug', 'info'):
                    raise ValueError('%s:%d: %s.%s(...) might be a logging call' % (self.rel, n.lineno, recv, f.attr))
            if f.attr == 'getLogger' and recv == 'logging':
                pass   # checked in visit_Assign
            if f.attr == 'build_error_response':
                if len(n.args) != 3 or n.keywords:
                    raise ValueError('%s:%d: build_error_response call shape' % (self.rel, n.lineno))
                self.add(n, 'KResultMsg', 'build_error_response', self.parts(n.args[2]))
            if f.attr == 'ResultMessage' and n.args:
                if not (isinstance(n.args[0], ast.Name) and n.args[0].id in ('result_message', 'message', 'value')):
                    self.add(n, 'KResultMsg', 'ResultMessage', self.parts(n.args[0]))
            if (recv, f.attr) in (('warnings', 'warn'), ('sys.stderr', 'write'), ('sys.stdout', 'write')) or \
                    (recv == 'traceback' and f.attr.startswith('print_')):
                self.add(n, 'KPrint', recv + '.' + f.attr, [p for a in n.args for p in self.parts(a)])
        elif isinstance(f, ast.Name) and f.id == 'print':
            self.add(n, 'KPrint', 'print', [p for a in n.args for p in self.parts(a)])
        self.generic_visit(n)

    def visit_Assign(self, n):
        v = n.value
        if isinstance(v, ast.Call) and _unq(v.func) == 'logging.getLogger':
            for t in n.targets:
                if _unq(t) not in LOGGER_RECEIVERS:
                    raise ValueError('%s:%d: logger stored as %r (unknown receiver name)' % (self.rel, n.lineno, _unq(t)))
        for t in n.targets:
            if isinstance(t, ast.Name) and t.id == 'result_message' and self.rel.startswith('kmip/services/server/'):
                if not (isinstance(v, ast.Constant) and v.value is None) and \
                        not (isinstance(v, ast.Call) and _unq(v.func).endswith('ResultMessage')):
                    self.add(n, 'KResultMsg', 'result_message', self.parts(v))
        self.generic_visit(n)

    def visit_Raise(self, n):
        e = n.exc
        if e is None:
            self.add(n, 'KRaise false', '<reraise>', [])
        elif isinstance(e, ast.Name):
            bound = [h for h in self.handlers if h[0] == e.id]
            if bound:
                self.add(n, 'KRaise false', '<reraise>', [])
            else:   # raise SomeClass   (no call)  /  raise variable
                pk = e.id in self.pk
                self.add(n, 'KRaise %s' % ('true' if pk else 'false'), e.id,
                         [] if (pk or e.id[:1].isupper()) else [('SUnknown', e.id)])
        elif isinstance(e, ast.Call):
            cname = _unq(e.func)
            short = cname.split('.')[-1]
            pk = short in self.pk and (cname == short or cname.split('.')[0] in ('exceptions', 'kmip'))
            parts = []
            for a in e.args:
                parts += self.parts(a)
            for k in e.keywords:
                if k.arg is None:
                    parts.append(('SUnknown', '**' + _unq(k.value)))
                elif k.arg in ('status', 'reason', 'result_status', 'result_reason') and \
                        _unq(k.value).startswith('enums.Result'):
                    pass      # result status / reason constants are not part of the message text
                else:
                    parts += self.parts(k.value)
            self.add(n, 'KRaise %s' % ('true' if pk else 'false'), cname, parts)
        else:
            raise ValueError('%s:%d: raise form not understood: %s' % (self.rel, n.lineno, _unq(e)))
        self.generic_visit(n)

    # ---------------------------------------------------------------- text decomposition
    def log_parts(self, call):
        if not call.args:
            return []
        first = call.args[0]
        rest = call.args[1:]
        if rest:
            s = self.const_str(first)
            if s is None:
                return self.parts(first) + [('SUnknown', 'extra logging args: ' + ', '.join(_unq(a) for a in rest))]
            return self.percent(s, rest, first.lineno)
        return self.parts(first)

    def const_str(self, e):
        if isinstance(e, ast.Constant) and isinstance(e.value, str):
            return e.value
        return None

    def parts(self, e, depth=0):
        """-> list of ('SLit', text) | (class, exprtext) | ('SExc', [classes], exprtext)"""
        if depth > 6:
            return [('SUnknown', _unq(e))]
        if isinstance(e, ast.Constant):
            if isinstance(e.value, str):
                return [('SLit', e.value)]
            if isinstance(e.value, bool) or e.value is None:
                return [('SLit', str(e.value))]
            if isinstance(e.value, (int, float)):
                return [('SNum', _unq(e))]
            return [('SUnknown', _unq(e))]
        if isinstance(e, ast.JoinedStr):
            out = []
            for v in e.values:
                if isinstance(v, ast.Constant):
                    out.append(('SLit', str(v.value)))
                elif isinstance(v, ast.FormattedValue):
                    if v.conversion == ord('r'):
                        out.append(self.secret_or_unknown(v.value, 'repr'))
                    else:
                        out += self.parts(v.value, depth + 1)
            return out
        if isinstance(e, ast.BinOp) and isinstance(e.op, ast.Add) and self.stringy(e):
            return self.parts(e.left, depth + 1) + self.parts(e.right, depth + 1)
        if isinstance(e, ast.BinOp) and isinstance(e.op, ast.Mod):
            s = self.const_str(e.left)
            if s is not None:
                args = list(e.right.elts) if isinstance(e.right, ast.Tuple) else [e.right]
                return self.percent(s, args, e.lineno, depth)
        if isinstance(e, ast.Call):
            f = e.func
            if isinstance(f, ast.Attribute) and f.attr == 'format':
                recv_parts = self.parts(f.value, depth + 1)
                if len(recv_parts) == 1 and recv_parts[0][0] == 'SLit':
                    return self.fmt(recv_parts[0][1], e.args, e.keywords, depth)
                if all(p[0] == 'STemplate' for p in recv_parts) and recv_parts:
                    out = [('STemplate', _unq(f.value))]
                    for a in e.args:
                        out += self.parts(a, depth + 1)
                    for k in e.keywords:
                        out += self.parts(k.value, depth + 1)
                    return out
                return [('SUnknown', _unq(e))]
            if isinstance(f, ast.Name) and f.id == 'str' and len(e.args) == 1 and not e.keywords:
                return self.parts(e.args[0], depth + 1)
        if isinstance(e, ast.BoolOp) and isinstance(e.op, ast.Or) and len(e.values) >= 2:
            # `str(e) or type(e).__name__`: the caught exception's text, or its class name when the text is empty
            first = self.parts(e.values[0], depth + 1)
            rest = [self.atom(v) for v in e.values[1:]]
            if len(first) == 1 and first[0][0] == 'SExc' and all(r[0] == 'STypeName' for r in rest):
                return [('SExc', first[0][1], _unq(e))]
        if isinstance(e, ast.Name):
            key = e.id
            if (self.func(), key) in self.wl_fn or key in self.wl:
                return [self.atom(e)]
            for hname, classes in reversed(self.handlers):
                if hname == key:
                    return [('SExc', classes, key)]
            loc = self.resolve_local(e)
            if loc is not None:
                return loc
            flow = self.param_flow(e, depth)
            if flow is not None:
                return flow
        return [self.atom(e)]

    # ---------------------------------------------------------------- parameters of private helpers
    def index_calls(self):
        """name -> [(call node, scope, fnodes, handlers)] for every call `f(...)`, `self.f(...)`, `cls.f(...)`,
        `Class.f(...)` in this module, and the number of *other* occurrences of each identifier."""
        if self._calls is not None:
            return
        self._calls, self._other_uses, self._defs = {}, {}, {}
        outer = self

        class V(ast.NodeVisitor):
            def __init__(v):
                v.scope, v.fnodes, v.handlers, v.classes = [], [], [], []

            def visit_ClassDef(v, n):
                v.scope.append(n.name)
                v.classes.append(n.name)
                v.generic_visit(n)
                v.classes.pop()
                v.scope.pop()

            def visit_FunctionDef(v, n):
                outer._defs.setdefault(n.name, []).append((n, list(v.classes)))
                for d in n.decorator_list:
                    v.visit(d)
                v.scope.append(n.name)
                v.fnodes.append(n)
                saved, v.handlers = v.handlers, []
                for st in n.body:
                    v.visit(st)
                for dflt in list(n.args.defaults) + [d for d in n.args.kw_defaults if d is not None]:
                    v.visit(dflt)
                v.handlers = saved
                v.fnodes.pop()
                v.scope.pop()

            visit_AsyncFunctionDef = visit_FunctionDef

            def visit_ExceptHandler(v, n):
                if n.type is None:
                    classes = ['BaseException']
                elif isinstance(n.type, ast.Tuple):
                    classes = [_unq(x) for x in n.type.elts]
                else:
                    classes = [_unq(n.type)]
                classes = [c.split('.')[-1] if c.split('.')[0] in ('exceptions', 'kmip') else c for c in classes]
                v.handlers.append((n.name, classes))
                v.generic_visit(n)
                v.handlers.pop()

            def visit_Call(v, n):
                f = n.func
                name = None
                if isinstance(f, ast.Name):
                    name = f.id
                elif isinstance(f, ast.Attribute) and isinstance(f.value, ast.Name) and \
                        (f.value.id in ('self', 'cls') or f.value.id in outer.classes):
                    name = f.attr
                if name is not None:
                    outer._calls.setdefault(name, []).append((n, list(v.scope), list(v.fnodes), list(v.handlers)))
                    # the callee expression itself is accounted for; visit the rest
                    if isinstance(f, ast.Attribute):
                        v.visit(f.value)
                    for a in n.args:
                        v.visit(a)
                    for k in n.keywords:
                        v.visit(k.value)
                    return
                v.generic_visit(n)

            def visit_Name(v, n):
                outer._other_uses[n.id] = outer._other_uses.get(n.id, 0) + 1

            def visit_Attribute(v, n):
                outer._other_uses[n.attr] = outer._other_uses.get(n.attr, 0) + 1
                v.generic_visit(n)

        V().visit(self.tree)

    def param_flow(self, name_node, depth):
        """A parameter of a private helper formatted into a message: classify the argument at EVERY call site of
        the helper.  Fail closed (None -> the caller falls through to Unknown) when the helper is not private, is
        defined twice, is decorated, escapes (any use that is not a direct call, or any use in another file), takes
        */** arguments, or a call site passes something that is not classified safe."""
        if not self.fnodes or depth > 4:
            return None
        fn = self.fnodes[-1]
        a = fn.args
        params = [x.arg for x in a.posonlyargs + a.args]
        if name_node.id not in params + [x.arg for x in a.kwonlyargs]:
            return None
        fname = fn.name
        if not fname.startswith('_') or fname.startswith('__') or fn.decorator_list or a.vararg or a.kwarg:
            return None
        self.index_calls()
        defs = self._defs.get(fname, [])
        if len(defs) != 1 or defs[0][0] is not fn:
            return None
        is_method = bool(defs[0][1]) and params[:1] and params[0] in ('self', 'cls')
        if self._other_uses.get(fname, 0) != 0:
            return None                                   # alias / passed around / getattr
        if any(fname in refs for rel, refs in self.refs_by_file.items() if rel != self.rel):
            return None                                   # used from another module
        calls = self._calls.get(fname, [])
        if not calls:
            return None
        formal = params[1:] if is_method else params
        defaults = dict(zip(reversed(a.posonlyargs + a.args), reversed(a.defaults)))
        defaults = {k.arg: v for k, v in defaults.items()}
        defaults.update({k.arg: v for k, v in zip(a.kwonlyargs, a.kw_defaults) if v is not None})
        results = []
        for call, scope, fnodes, handlers in calls:
            if any(isinstance(x, ast.Starred) for x in call.args) or any(k.arg is None for k in call.keywords):
                return None
            if isinstance(call.func, ast.Name) == bool(is_method):
                return None                               # method called as a function or the reverse
            actual = None
            if name_node.id in formal and formal.index(name_node.id) < len(call.args):
                actual = call.args[formal.index(name_node.id)]
            for k in call.keywords:
                if k.arg == name_node.id:
                    actual = k.value
            if actual is None:
                actual = defaults.get(name_node.id)
            if actual is None:
                return None
            saved = (self.scope, self.fnodes, self.handlers)
            self.scope, self.fnodes, self.handlers = scope, fnodes, handlers
            try:
                ps = self.parts(actual, depth + 1)
            finally:
                self.scope, self.fnodes, self.handlers = saved
            if len(ps) != 1 or ps[0][0] in ('SUnknown', 'SSecret', 'STemplate'):
                return [('SUnknown', 'parameter %s of %s: call at line %d passes %s' % (name_node.id, fname, call.lineno, _unq(actual)))]
            results.append(ps[0])
        kinds = {r[0] for r in results}
        txt = 'parameter %s of %s (%d call sites)' % (name_node.id, fname, len(results))
        if kinds == {'SLit'}:
            if all(len(r[1]) <= 40 for r in results):
                return [('SEnumName', txt)]               # one of a few literal words chosen by the callers
            return None
        if len(kinds) == 1:
            r = results[0]
            return [r if r[0] == 'SExc' and all(x[1] == r[1] for x in results) else
                    (('SUnknown', txt) if r[0] == 'SExc' else (r[0], txt))]
        if kinds <= {'SLit', 'SEnumName', 'SOpName', 'STypeName'} and all(r[0] != 'SLit' or len(r[1]) <= 40 for r in results):
            return [('SEnumName', txt)]
        if 'SExc' in kinds or 'SWire' in kinds:
            return [('SUnknown', txt + ': mixed classes')]
        return [('SClientText', txt)]                     # every call site passes non-secret text, of different kinds

    def stringy(self, e):
        """Is this `+` a string concatenation?  (one operand is visibly a string)"""
        if isinstance(e, ast.BinOp) and isinstance(e.op, ast.Add):
            return self.stringy(e.left) or self.stringy(e.right)
        if isinstance(e, ast.Constant):
            return isinstance(e.value, str)
        if isinstance(e, ast.JoinedStr):
            return True
        if isinstance(e, ast.Call):
            return (isinstance(e.func, ast.Name) and e.func.id in ('str', 'repr')) or \
                   (isinstance(e.func, ast.Attribute) and e.func.attr in ('format', 'join'))
        return False

    def resolve_local(self, name_node):
        """`msg = "..."; msg = msg.format(a, b); raise X(msg)`: follow simple assignments inside the function."""
        if not self.fnodes:
            return None
        fn = self.fnodes[-1]
        assigns = []
        for node in ast.walk(fn):
            if isinstance(node, ast.Assign) and len(node.targets) == 1 and isinstance(node.targets[0], ast.Name) \
                    and node.targets[0].id == name_node.id and node.lineno < name_node.lineno:
                assigns.append(node)
            elif isinstance(node, ast.AugAssign) and isinstance(node.target, ast.Name) \
                    and node.target.id == name_node.id and node.lineno < name_node.lineno:
                assigns.append(node)
            elif isinstance(node, (ast.For, ast.With, ast.NamedExpr)) and any(
                    isinstance(x, ast.Name) and x.id == name_node.id and isinstance(x.ctx, ast.Store)
                    for x in ast.walk(node.target if isinstance(node, (ast.For, ast.NamedExpr)) else node)
                    if not isinstance(node, ast.With)) and node.lineno < name_node.lineno:
                return [('SUnknown', 'loop/walrus-bound ' + name_node.id)]
        if not assigns:
            return None
        assigns.sort(key=lambda a: a.lineno)
        # `msg = A; raise T(msg) ... msg = B; msg += C; raise T(msg)`: a use is fed by the assignments after the
        # previous raise of the function (all of them must be safe); a template assigned once before several
        # raises is still followed.
        cut = max([n.lineno for n in ast.walk(fn) if isinstance(n, ast.Raise) and n.lineno < name_node.lineno] or [0])
        later = [a for a in assigns if a.lineno > cut]
        if later and isinstance(later[0], ast.Assign):
            assigns = later
        val = None
        every = []
        for a in assigns:
            v = a.value
            if isinstance(a, ast.AugAssign):
                # `msg += "...".format(...)`: appended text (only `+=` on a value we already follow)
                if isinstance(a.op, ast.Add) and val is not None:
                    val = val + self.parts(v, 1)
                else:
                    val = [('SUnknown', _unq(a))]
                every.append(val)
                continue
            if isinstance(v, ast.Call) and isinstance(v.func, ast.Attribute) and v.func.attr == 'format' \
                    and isinstance(v.func.value, ast.Name) and v.func.value.id == name_node.id:
                if val is not None and len(val) == 1 and val[0][0] == 'SLit':
                    val = self.fmt(val[0][1], v.args, v.keywords, 1)
                elif val is not None and val and val[0][0] == 'STemplate' and len(val) == 1:
                    val = [val[0]] + [p for x in v.args for p in self.parts(x, 1)]
                else:
                    val = [('SUnknown', _unq(v))]
            elif any(isinstance(x, ast.Name) and x.id == name_node.id for x in ast.walk(v)):
                val = [('SUnknown', _unq(v))]
            else:
                val = self.parts(v, 1)
            every.append(val)
        # every assignment that can reach the use must be safe, not only the textually last one
        for v in every:
            bad = [p for p in v if p[0] in ('SUnknown', 'SSecret')]
            if bad:
                return [bad[0]]
        return val

    def fmt(self, s, args, kwargs, depth=0):
        out = []
        auto = 0
        kw = {k.arg: k.value for k in kwargs if k.arg}
        try:
            parsed = list(string.Formatter().parse(s))
        except ValueError:
            return [('SUnknown', 'bad format string %r' % s)]
        for lit, field, spec, conv in parsed:
            if lit:
                out.append(('SLit', lit))
            if field is None:
                continue
            if field == '':
                idx, auto = auto, auto + 1
                target = args[idx] if idx < len(args) else None
            elif field.isdigit():
                target = args[int(field)] if int(field) < len(args) else None
            elif field in kw:
                target = kw[field]
            else:
                target = None
            if target is None or isinstance(target, ast.Starred):
                out.append(('SUnknown', 'format field {%s}' % field))
            elif conv == 'r':
                out.append(self.secret_or_unknown(target, 'repr'))
            else:
                out += self.parts(target, depth + 1)
        return out

    PCT = re.compile(r'%(?:\((\w+)\))?[-#0 +]*(?:\*|\d+)?(?:\.(?:\*|\d+))?[hlL]?([diouxXeEfFgGcrsa%])')

    def percent(self, s, args, lineno, depth=0):
        out = []
        pos = 0
        k = 0
        for m in self.PCT.finditer(s):
            if m.start() > pos:
                out.append(('SLit', s[pos:m.start()]))
            pos = m.end()
            if m.group(2) == '%':
                out.append(('SLit', '%'))
                continue
            if m.group(1) is not None or k >= len(args):
                out.append(('SUnknown', '%% field %s' % m.group(0)))
                continue
            if m.group(2) in 'ra':
                out.append(self.secret_or_unknown(args[k], 'repr'))
            else:
                out += self.parts(args[k], depth + 1)
            k += 1
        if pos < len(s):
            out.append(('SLit', s[pos:]))
        for extra in args[k:]:
            out.append(('SUnknown', 'unused % argument ' + _unq(extra)))
        return out

    def secret_or_unknown(self, e, why=''):
        txt = _unq(e)
        return ('SSecret' if SECRET_NAME.search(txt) or why == 'repr' else 'SUnknown', (why + ' ' if why else '') + txt)

    # ---------------------------------------------------------------- classification of one argument
    def atom(self, e):
        txt = _unq(e)
        fk = (self.func(), txt)
        cls = self.wl_fn.get(fk) or self.wl.get(txt)
        if cls is not None and cls.startswith('OBJ:'):
            return self.default_repr_object(cls[4:], txt)
        if cls is not None:
            return (cls, txt)
        # shapes that mean the same everywhere
        if isinstance(e, ast.Call):
            fn = _unq(e.func)
            if fn == 'len' and len(e.args) == 1:
                return ('SNum', txt)
            if fn in ('hex', 'int', 'oct') and len(e.args) == 1 and self.atom(e.args[0])[0] == 'SNum':
                return ('SNum', txt)
            if fn == 'type' and len(e.args) == 1:
                return ('STypeName', txt)
            if fn in ('time.strftime', 'time.asctime', 'time.ctime', 'time.gmtime', 'time.time'):
                return ('STime', txt)
            if fn == 'self._get_enum_string' and len(e.args) == 1:
                return ('SEnumName', txt)
            if fn == 'utils.build_er_error' and 4 <= len(e.args) <= 5 and not e.keywords and \
                    all(self.parts(a)[0][0] in ('SLit', 'STypeName') and len(self.parts(a)) <= 3 for a in e.args):
                return ('STemplate', txt)  # ErrorStrings.BAD_EXP_RECV filled with class names / literals / type(...)
            if self.is_camel_join(e):
                return ('STypeName', txt)
            if fn in SECRET_CALLS:
                return ('SSecret', txt)
        if isinstance(e, (ast.Name, ast.Attribute)) and re.match(r'^(\w+\.)*[A-Z][A-Za-z0-9]*[a-z][A-Za-z0-9]*$', txt):
            return ('STypeName', txt)      # CamelCase reference = a class object (rendered as its repr)
        if isinstance(e, ast.Attribute):
            if e.attr == '__name__':
                return ('STypeName', txt)
            if e.attr in SAFE_LEAF:
                return (SAFE_LEAF[e.attr], txt)
            if e.attr == 'name' and isinstance(e.value, (ast.Name, ast.Attribute)):
                base = _unq(e.value)
                # `.name` of an enumeration-valued expression; receivers are restricted to names that hold enums
                if re.search(r'(^|[._])(algorithm|object_type|key_format_type|_object_type|operation|tag|state|value|attribute'
                             r'|mask_value|cipher_mode|padding_method|hashing_algorithm)$', base) and \
                        not re.search(r'(key_value|\.value\.value)', base):
                    return ('SEnumName', txt)
        if isinstance(e, ast.IfExp) and all(isinstance(b, ast.Constant) and isinstance(b.value, str) and len(b.value) <= 40
                                            for b in (e.body, e.orelse)):
            return ('SEnumName', txt)      # one of two literal words
        if isinstance(e, ast.BinOp) and isinstance(e.op, (ast.Mult, ast.Add, ast.Sub, ast.FloorDiv)):
            l, r = self.atom(e.left), self.atom(e.right)
            if l[0] == 'SNum' and r[0] == 'SNum':
                return ('SNum', txt)
        if isinstance(e, ast.Constant) and isinstance(e.value, (int, float)) and not isinstance(e.value, bool):
            return ('SNum', txt)
        if SECRET_NAME.search(txt):
            return ('SSecret', txt)
        return ('SUnknown', txt)

    def default_repr_object(self, cname, txt):
        seen, todo, bad = set(), [cname], []
        if cname not in self.classes:
            return ('SUnknown', '%s: class %s not found' % (txt, cname))
        while todo:
            c = todo.pop()
            if c in seen or c not in self.classes:
                continue
            seen.add(c)
            bases, methods = self.classes[c]
            bad += ['%s.%s' % (c, m) for m in ('__str__', '__repr__', '__format__') if m in methods and ('const:' + m) not in methods]
            todo += list(bases)
        if bad:
            return ('SSecret', '%s: an object holding key material is formatted through %s' % (txt, ', '.join(sorted(bad))))
        return ('STypeName', txt)

    def is_camel_join(self, e):
        """''.join([x.capitalize() for x in <enum name expr>.split('_')])"""
        try:
            if not (isinstance(e.func, ast.Attribute) and e.func.attr == 'join' and self.const_str(e.func.value) == ''):
                return False
            lc = e.args[0]
            if not isinstance(lc, (ast.ListComp, ast.GeneratorExp)) or len(lc.generators) != 1:
                return False
            g = lc.generators[0]
            if _unq(lc.elt) != '%s.capitalize()' % _unq(g.target) or g.ifs:
                return False
            it = g.iter
            if not (isinstance(it, ast.Call) and isinstance(it.func, ast.Attribute) and it.func.attr == 'split'
                    and len(it.args) == 1 and self.const_str(it.args[0]) == '_'):
                return False
            src = it.func.value
            txt = _unq(src)
            # the split string must itself be an enumeration member's name
            if isinstance(src, ast.Attribute) and src.attr == 'name':
                return self.atom(src)[0] == 'SEnumName'
            return txt in ('name', 'object_type') and self.is_enum_name_local(src)
        except Exception:
            return False

    def is_enum_name_local(self, name_node):
        """`name = <x>.name` / `object_type = <x>.name` earlier in the same function."""
        if not self.fnodes:
            return False
        ok = False
        for node in ast.walk(self.fnodes[-1]):
            if isinstance(node, ast.Assign) and len(node.targets) == 1 and isinstance(node.targets[0], ast.Name) \
                    and node.targets[0].id == name_node.id and node.lineno < name_node.lineno:
                v = node.value
                if isinstance(v, ast.Attribute) and v.attr == 'name':
                    ok = True
                else:
                    return False
        return ok


# ---------------------------------------------------------------------------------------------------------
def package_files(repo):
    root = Path(repo) / 'kmip'
    out = []
    for p in sorted(root.rglob('*.py')):
        rel = p.relative_to(repo).as_posix()
        if '/tests/' in rel or '/demos/' in rel:
            continue
        out.append(rel)
    return out


BUILTIN_EXC = {'Exception', 'BaseException', 'ValueError', 'TypeError', 'KeyError', 'AttributeError', 'RuntimeError',
               'IOError', 'OSError', 'EOFError', 'NotImplementedError', 'IndexError', 'LookupError'}


def package_exception_classes(trees):
    """Names of classes defined in the package whose base chain reaches a builtin exception."""
    bases = {}
    for rel, tree in trees.items():
        for node in ast.walk(tree):
            if isinstance(node, ast.ClassDef):
                bases.setdefault(node.name, set()).update(_unq(b).split('.')[-1] for b in node.bases)
    exc = set()
    changed = True
    while changed:
        changed = False
        for name, bs in bases.items():
            if name not in exc and any(b in BUILTIN_EXC or b in exc for b in bs):
                exc.add(name)
                changed = True
    return sorted(exc)


def scan(repo):
    repo = Path(repo)
    files = package_files(repo)
    if len(files) < 40:
        raise ValueError('unexpectedly few package files under %s' % repo)
    trees = {rel: ast.parse((repo / rel).read_text(), filename=rel) for rel in files}
    pk = package_exception_classes(trees)
    if 'KmipError' not in pk or 'PermissionDenied' not in pk:
        raise ValueError('exception hierarchy not recognised')
    sites = []
    classes = {}        # class name -> (base names, names defined in the class body); same-named classes are merged
    for rel in files:
        for node in ast.walk(trees[rel]):
            if isinstance(node, ast.ClassDef):
                b, m = classes.setdefault(node.name, (set(), set()))
                b.update(_unq(x).split('.')[-1] for x in node.bases)
                m.update(x.name for x in node.body if isinstance(x, (ast.FunctionDef, ast.AsyncFunctionDef)))
                for x in node.body:      # `def __repr__(self): return "Struct()"` - a constant text
                    if isinstance(x, ast.FunctionDef):
                        body = [st for st in x.body if not (isinstance(st, ast.Expr) and isinstance(st.value, ast.Constant))]
                        if len(body) == 1 and isinstance(body[0], ast.Return) and isinstance(body[0].value, ast.Constant) \
                                and isinstance(body[0].value.value, str):
                            m.add('const:' + x.name)
                m.update(t.id for x in node.body if isinstance(x, ast.Assign) for t in x.targets if isinstance(t, ast.Name))
    referenced = set()
    refs_by_file = {}
    for rel in files:
        mine = refs_by_file.setdefault(rel, set())
        for node in ast.walk(trees[rel]):
            if isinstance(node, ast.Name) and isinstance(node.ctx, ast.Load):
                mine.add(node.id)
            elif isinstance(node, ast.Attribute):
                mine.add(node.attr)
            elif isinstance(node, ast.alias):
                mine.add(node.name.split('.')[-1])
            elif isinstance(node, ast.Constant) and isinstance(node.value, str) and node.value.isidentifier():
                mine.add(node.value)        # getattr(obj, "_helper") and the like
        referenced |= mine
    for rel in files:
        fs = FileScan(rel, trees[rel], set(pk), referenced, classes, refs_by_file)
        fs.visit(trees[rel])
        sites += fs.sites
    scan.trees = trees
    return files, pk, sites


# ---------------------------------------------------------------------------------------------------------
# What "the default logging level" is - tied to kmip/services/server/config.py and server.py (fail closed).
# ---------------------------------------------------------------------------------------------------------
STD_LEVELS = {'NOTSET': 0, 'DEBUG': 10, 'INFO': 20, 'WARNING': 30, 'ERROR': 40, 'CRITICAL': 50}


def _logging_const(node):
    if isinstance(node, ast.Attribute) and isinstance(node.value, ast.Name) and node.value.id == 'logging' \
            and node.attr in STD_LEVELS:
        return node.attr
    return None


def _is_settings(node):
    return isinstance(node, ast.Attribute) and node.attr == 'settings' and isinstance(node.value, ast.Name) \
        and node.value.id == 'self'


def scan_levels(repo, trees):
    """-> dict(default_name, default_value, level_table, server_sets_level (bool), config_removes_settings (bool),
               setlevel_sites [(file, func, argument text)])"""
    CFG_F, SRV_F = 'kmip/services/server/config.py', 'kmip/services/server/server.py'
    cfg, srv = trees[CFG_F], trees[SRV_F]
    # ---- config.py
    default = None
    removes = False
    table = None
    for cls in [n for n in ast.walk(cfg) if isinstance(n, ast.ClassDef) and n.name == 'KmipServerConfig']:
        for fn in [n for n in cls.body if isinstance(n, ast.FunctionDef)]:
            for node in ast.walk(fn):
                if isinstance(node, ast.Assign):
                    for t in node.targets:
                        if isinstance(t, ast.Subscript) and _is_settings(t.value) and \
                                isinstance(t.slice, ast.Constant) and t.slice.value == 'logging_level':
                            if fn.name == '__init__':
                                name = _logging_const(node.value)
                                if name is None or default is not None:
                                    raise ValueError('%s:%d: default logging level not understood' % (CFG_F, node.lineno))
                                default = name
                            elif fn.name != '_set_logging_level':
                                raise ValueError('%s:%d: logging_level assigned in %s' % (CFG_F, node.lineno, fn.name))
                        if _is_settings(t) and fn.name != '__init__':
                            removes = True
                        if isinstance(t, ast.Subscript) and _is_settings(t.value) and not isinstance(t.slice, ast.Constant) \
                                and fn.name not in ('__init__',):
                            # self.settings[<computed key>] = ... could overwrite the level
                            raise ValueError('%s:%d: settings written under a computed key' % (CFG_F, node.lineno))
                if isinstance(node, ast.Call) and isinstance(node.func, ast.Attribute) and _is_settings(node.func.value) \
                        and node.func.attr in ('pop', 'popitem', 'clear', 'update', 'setdefault', '__delitem__'):
                    removes = True
                if isinstance(node, ast.Delete) and any(isinstance(t, ast.Subscript) and _is_settings(t.value) for t in node.targets):
                    removes = True
                if fn.name == '_set_logging_level' and isinstance(node, ast.Dict) and table is None:
                    tb = {}
                    for k, v in zip(node.keys, node.values):
                        name = _logging_const(v)
                        if not (isinstance(k, ast.Constant) and isinstance(k.value, str)) or name is None or name != k.value:
                            raise ValueError('%s:%d: logging level table not understood' % (CFG_F, node.lineno))
                        tb[k.value] = STD_LEVELS[name]
                    table = tb
    if default is None or not table:
        raise ValueError('%s: default logging level / level table not found' % CFG_F)
    # ---- server.py: KmipServer.__init__ must put the configured level on its logger, unconditionally, after the
    #      configuration was loaded
    sets = False
    for cls in [n for n in ast.walk(srv) if isinstance(n, ast.ClassDef) and n.name == 'KmipServer']:
        for fn in [n for n in cls.body if isinstance(n, ast.FunctionDef) and n.name == '__init__']:
            seen_config = False
            for st in fn.body:                      # top-level statements only: a guarded call does not count
                txt = _unq(st)
                if 'self._setup_configuration(' in txt:
                    seen_config = True
                if seen_config and isinstance(st, ast.Expr) and \
                        txt == "self._logger.setLevel(self.config.settings.get('logging_level'))":
                    sets = True
    # ---- every place that changes a logger level / routing, package wide
    sites = []
    for rel, tree in trees.items():
        class V(ast.NodeVisitor):
            def __init__(v):
                v.scope = []

            def visit_ClassDef(v, n):
                v.scope.append(n.name)
                v.generic_visit(n)
                v.scope.pop()

            def visit_FunctionDef(v, n):
                v.scope.append(n.name)
                v.generic_visit(n)
                v.scope.pop()

            def visit_Call(v, n):
                f = n.func
                if isinstance(f, ast.Attribute) and f.attr in ('setLevel', 'basicConfig', 'disable', 'removeHandler', 'addFilter') \
                        and (f.attr == 'setLevel' or _unq(f.value) == 'logging' or 'log' in _unq(f.value).lower()):
                    sites.append((rel, '.'.join(v.scope) or '<module>', '%s(%s)' % (f.attr, ', '.join(_unq(a) for a in n.args))))
                v.generic_visit(n)

            def visit_Assign(v, n):
                for t in n.targets:
                    if isinstance(t, ast.Attribute) and t.attr in ('propagate', 'disabled', 'level'):
                        sites.append((rel, '.'.join(v.scope) or '<module>', _unq(n)))
                v.generic_visit(n)
        V().visit(tree)
    return {'default_name': default, 'default_value': STD_LEVELS[default], 'level_table': table,
            'server_sets_level': sets, 'config_removes_settings': removes, 'setlevel_sites': sites}


def coq_levels(lv):
    out = ['(* GENERATED from kmip/services/server/config.py, server.py and every setLevel-like call of the package',
           '   by translate/gen_logsites.py - do not edit *)',
           'From Coq Require Import ZArith List String.', 'Import ListNotations.', 'Open Scope string_scope.', 'Open Scope Z_scope.', '',
           '(* KmipServerConfig.__init__: self.settings["logging_level"] = logging.%s *)' % lv['default_name'],
           'Definition default_level_name : string := %s.' % coq_str(lv['default_name']),
           'Definition default_level : Z := %d.' % lv['default_value'],
           '(* KmipServerConfig._set_logging_level: accepted names (upper-cased) *)',
           'Definition level_table : list (string * Z) := [%s].' % '; '.join('(%s, %d)' % (coq_str(k), v) for k, v in sorted(lv['level_table'].items(), key=lambda kv: kv[1])),
           '(* KmipServer.__init__ calls self._logger.setLevel(self.config.settings.get("logging_level")) as an unguarded',
           '   top-level statement after _setup_configuration *)',
           'Definition server_sets_configured_level : bool := %s.' % ('true' if lv['server_sets_level'] else 'false'),
           '(* some method of KmipServerConfig removes or replaces entries of self.settings (pop / del / clear / update / rebinding) *)',
           'Definition config_removes_settings : bool := %s.' % ('true' if lv['config_removes_settings'] else 'false'),
           '(* every call / assignment that changes a logger level, filter or routing, package wide *)',
           'Definition setlevel_sites : list (string * string * string) := [%s].' % ';\n  '.join(
               '(%s, %s, %s)' % (coq_str(a), coq_str(b), coq_str(c)) for a, b, c in lv['setlevel_sites'])]
    return '\n'.join(out) + '\n'



def coq_str(s):
    return '"' + s.replace('"', '""') + '"'


def coq_part(p):
    if p[0] == 'SLit':
        return '(SLit %s)' % coq_str(p[1])
    if p[0] == 'SExc':
        return '(SExc [%s])' % '; '.join(coq_str(c) for c in p[1])
    if p[0] in ('SSecret', 'SUnknown'):
        return '(%s %s)' % (p[0], coq_str(p[1]))
    return p[0]


def coq_site(s):
    return '  mkSite %s %d %d %s (%s) %s [%s]' % (
        coq_str(s['file']), s['line'], s['end'], coq_str(s['func']), s['kind'], coq_str(s['cls']),
        '; '.join(coq_part(p) for p in s['parts']))


def generate(repo):
    files, pk, sites = scan(repo)
    out = ['(* GENERATED from kmip/**/*.py (tests, demos excluded) by translate/gen_logsites.py - do not edit *)',
           'From Coq Require Import ZArith List String.', 'From PK Require Import Logs.Frag.', 'Import ListNotations.',
           'Open Scope string_scope.', 'Open Scope Z_scope.', '']
    out.append('Definition scanned_files : list string := [%s].' % ';\n  '.join(coq_str(f) for f in files))
    out.append('')
    out.append('Definition pk_exc_classes : list string := [%s].' % '; '.join(coq_str(c) for c in pk))
    out.append('')
    names = []
    for k, rel in enumerate(files):
        mine = [s for s in sites if s['file'] == rel]
        if not mine:
            continue
        nm = 'sites_%03d' % k
        names.append(nm)
        out.append('(* %s *)' % rel)
        out.append('Definition %s : list site := [\n%s\n].' % (nm, ';\n'.join(coq_site(s) for s in mine)))
        out.append('')
    out.append('Definition log_sites : list site :=\n  %s.' % ' ++\n  '.join(names))
    return {'LogSites.v': '\n'.join(out) + '\n', 'LogLevels.v': coq_levels(scan_levels(repo, scan.trees))}


if __name__ == '__main__':
    import sys
    files, pk, sites = scan(sys.argv[1] if len(sys.argv) > 1 else '/repo')
    bad = 0
    for s in sites:
        obs = s['kind'] not in ('KLog LDebug', 'KDead')
        flag = [p for p in s['parts'] if p[0] in ('SUnknown', 'SSecret')]
        if flag and (obs or '-a' in sys.argv):
            bad += obs
            print('%s:%d %s %s %s' % (s['file'], s['line'], s['func'], s['kind'], flag))
    print(len(files), 'files', len(sites), 'sites', bad, 'observable sites not safe')
