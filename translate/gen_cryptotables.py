"""kmip/services/server/crypto/engine.py -> gen/CryptoTables.v   (tie T for C06)

Two groups of definitions are generated.

1. The lookup tables of `CryptographyEngine.__init__`, by reflection on a
   constructed engine object: which enum members are keys of
   `_symmetric_key_algorithms`, `_asymmetric_key_algorithms`, `_hash_algorithms`,
   `_encryption_hash_algorithms`, `_modes`, `_asymmetric_padding_methods`,
   `_symmetric_padding_methods`, `_digital_signature_algorithms`, what they map
   to (cipher class -> block size and accepted key sizes; hash class -> hash
   id; mode class -> "takes an IV/nonce" exactly as the `hasattr` test of the
   code decides), and the numeric values of the enum members the code names
   literally (RSA, RC4, GCM, CBC, ECB, OAEP, ...).

2. What the installed `cryptography` library accepts (probed, trusted library
   behaviour; needed to predict where the engine ends in a non-KMIP exception):
   for every (algorithm, mode, key size) whether `Cipher(...).encryptor()` can
   be built, and for every (algorithm, key size) whether `CMAC` can.

Fails closed: an unknown table attribute, an unknown cipher / hash / mode /
padding class, a non-enum key, or an unexpected exception type while probing
raises and the run reports a broken translation.
"""
import enum
import importlib
import logging
import warnings

HASH_IDS = {'md5': (1, 16), 'sha1': (2, 20), 'sha224': (3, 28), 'sha256': (4, 32), 'sha384': (5, 48), 'sha512': (6, 64)}
CIPHER_NAMES = {'TripleDES': '3DES', 'AES': 'AES', 'Blowfish': 'Blowfish', 'Camellia': 'camellia', 'CAST5': 'CAST5',
                'IDEA': 'IDEA', 'ARC4': 'RC4'}
MODE_CLASSES = ['CBC', 'ECB', 'OFB', 'CFB', 'CTR', 'GCM']
SYM_PADDING = {'PKCS7': 0, 'ANSIX923': 1}
ASYM_PADDING = {'OAEP': 0, 'PKCS1v15': 1, 'PSS': 2}

KNOWN_TABLES = {'_symmetric_key_algorithms', '_asymmetric_key_algorithms', '_hash_algorithms',
                '_encryption_hash_algorithms', '_modes', '_asymmetric_padding_methods',
                '_symmetric_padding_methods', '_no_mode_needed', '_no_padding_needed',
                '_digital_signature_algorithms', 'logger'}

LITERALS = [  # (Coq name, enum class, member) : members the code compares against literally
    ('CA_RSA', 'CryptographicAlgorithm', 'RSA'), ('CA_RC4', 'CryptographicAlgorithm', 'RC4'),
    ('CA_AES', 'CryptographicAlgorithm', 'AES'),
    ('BCM_CBC', 'BlockCipherMode', 'CBC'), ('BCM_ECB', 'BlockCipherMode', 'ECB'), ('BCM_GCM', 'BlockCipherMode', 'GCM'),
    ('BCM_NIST_KEY_WRAP', 'BlockCipherMode', 'NIST_KEY_WRAP'),
    ('PM_OAEP', 'PaddingMethod', 'OAEP'), ('PM_PKCS1v15', 'PaddingMethod', 'PKCS1v15'), ('PM_PSS', 'PaddingMethod', 'PSS'),
    ('PM_PKCS5', 'PaddingMethod', 'PKCS5'), ('PM_ANSI_X923', 'PaddingMethod', 'ANSI_X923'),
    ('DM_PBKDF2', 'DerivationMethod', 'PBKDF2'), ('DM_HASH', 'DerivationMethod', 'HASH'), ('DM_HMAC', 'DerivationMethod', 'HMAC'),
    ('DM_ENCRYPT', 'DerivationMethod', 'ENCRYPT'), ('DM_NIST800_108_C', 'DerivationMethod', 'NIST800_108_C'),
    ('WM_ENCRYPT', 'WrappingMethod', 'ENCRYPT'),
]


def _enum_key(k, cls):
    if not isinstance(k, enum.Enum) or type(k).__name__ != cls:
        raise ValueError('table key %r is not a member of enums.%s' % (k, cls))
    return int(k.value)


def _hash_id(klass):
    name = getattr(klass, 'name', None)
    if name not in HASH_IDS or klass.digest_size != HASH_IDS[name][1]:
        raise ValueError('unknown hash class %r' % (klass,))
    return HASH_IDS[name][0]


def _zl(xs):
    return '[' + '; '.join(str(x) for x in xs) + ']'


def reflect(repo=None):
    """Plain-data view of the engine tables (also used by harness/c06.py)."""
    warnings.simplefilter('ignore')
    logging.getLogger('kmip').setLevel(logging.CRITICAL + 1)
    enums = importlib.import_module('kmip.core.enums')
    ce = importlib.import_module('kmip.services.server.crypto.engine')
    eng = ce.CryptographyEngine()
    unknown = sorted(set(vars(eng)) - KNOWN_TABLES)
    if unknown:
        raise ValueError('CryptographyEngine.__init__ defines attributes this translator does not know: %r' % unknown)
    missing = sorted(KNOWN_TABLES - set(vars(eng)))
    if missing:
        raise ValueError('CryptographyEngine.__init__ no longer defines: %r' % missing)
    T = {}
    sym = []
    for k, klass in eng._symmetric_key_algorithms.items():
        if klass.__name__ not in CIPHER_NAMES:
            raise ValueError('unknown cipher class %r' % klass)
        bs = getattr(klass, 'block_size', None)
        if bs is None:
            bs = 0
        if not isinstance(bs, int) or bs % 8:
            raise ValueError('odd block size for %r' % klass)
        ks = sorted(int(x) for x in klass.key_sizes)
        sym.append((_enum_key(k, 'CryptographicAlgorithm'), klass.__name__, bs, ks))
    T['sym'] = sorted(sym)
    asym = []
    for k, fn in eng._asymmetric_key_algorithms.items():
        if getattr(fn, '__name__', '') != '_create_rsa_key_pair':
            raise ValueError('unknown asymmetric key generator %r' % fn)
        asym.append(_enum_key(k, 'CryptographicAlgorithm'))
    T['asym'] = sorted(asym)
    T['hmac'] = sorted((_enum_key(k, 'CryptographicAlgorithm'), _hash_id(v)) for k, v in eng._hash_algorithms.items())
    T['hash'] = sorted((_enum_key(k, 'HashingAlgorithm'), _hash_id(v)) for k, v in eng._encryption_hash_algorithms.items())
    modes = []
    for k, klass in eng._modes.items():
        if klass.__name__ not in MODE_CLASSES:
            raise ValueError('unknown mode class %r' % klass)
        takes_iv = hasattr(klass, 'initialization_vector') or hasattr(klass, 'nonce')
        modes.append((_enum_key(k, 'BlockCipherMode'), klass.__name__, bool(takes_iv)))
    T['modes'] = sorted(modes)
    ap = []
    for k, klass in eng._asymmetric_padding_methods.items():
        if klass.__name__ not in ASYM_PADDING:
            raise ValueError('unknown asymmetric padding class %r' % klass)
        ap.append((_enum_key(k, 'PaddingMethod'), ASYM_PADDING[klass.__name__]))
    T['apad'] = sorted(ap)
    sp = []
    for k, klass in eng._symmetric_padding_methods.items():
        if klass.__name__ not in SYM_PADDING:
            raise ValueError('unknown symmetric padding class %r' % klass)
        sp.append((_enum_key(k, 'PaddingMethod'), SYM_PADDING[klass.__name__]))
    T['spad'] = sorted(sp)
    dsa = []
    for k, v in eng._digital_signature_algorithms.items():
        if not (isinstance(v, tuple) and len(v) == 2):
            raise ValueError('digital signature table entry is not a pair: %r' % (v,))
        dsa.append((_enum_key(k, 'DigitalSignatureAlgorithm'), _hash_id(v[0]), _enum_key(v[1], 'CryptographicAlgorithm')))
    T['dsa'] = sorted(dsa)
    T['no_mode_needed'] = sorted(_enum_key(k, 'CryptographicAlgorithm') for k in eng._no_mode_needed)
    T['no_padding_needed'] = sorted(_enum_key(k, 'BlockCipherMode') for k in eng._no_padding_needed)
    T['literals'] = [(n, int(getattr(enums, c)[m].value)) for n, c, m in LITERALS]
    T['classes'] = {'sym': {v: eng._symmetric_key_algorithms[enums.CryptographicAlgorithm(v)] for v, _, _, _ in sym},
                    'modes': {v: eng._modes[enums.BlockCipherMode(v)] for v, _, _ in modes}}
    return T


def probe_library(T):
    """(alg, mode|-1, [key bits the library builds an encryptor for]) and CMAC likewise."""
    from cryptography.exceptions import UnsupportedAlgorithm
    from cryptography.hazmat.primitives import ciphers, cmac
    ok_exc = (UnsupportedAlgorithm, ValueError, TypeError)
    out, cm = [], []
    for av, cname, bs, ks in T['sym']:
        klass = T['classes']['sym'][av]
        mode_list = [(-1, None, False)] + [(mv, T['classes']['modes'][mv], iv) for mv, _, iv in T['modes']]
        for mv, mklass, takes_iv in mode_list:
            good = []
            for bits in ks:
                try:
                    a = klass(bytes(bits // 8))
                    if mklass is None:
                        m = None
                    elif mklass.__name__ == 'GCM':
                        m = mklass(bytes(12), None, min_tag_length=16)
                    elif takes_iv:
                        m = mklass(bytes(max(bs, 64) // 8 if bs else 8))
                    else:
                        m = mklass()
                    ciphers.Cipher(a, m).encryptor()
                    good.append(bits)
                except ok_exc:
                    pass
            out.append((av, mv, good))
        good = []
        for bits in ks:
            try:
                cmac.CMAC(klass(bytes(bits // 8))).update(b'')
                good.append(bits)
            except ok_exc:
                pass
        cm.append((av, good))
    return out, cm


def generate(repo):
    T = reflect(repo)
    lib, cm = probe_library(T)
    o = ['(* GENERATED from kmip/services/server/crypto/engine.py (CryptographyEngine.__init__, by reflection)',
         '   and by probing the installed `cryptography` library - translate/gen_cryptotables.py - do not edit *)',
         'From Coq Require Import ZArith List.', 'Import ListNotations.', 'Open Scope Z_scope.', '',
         '(* ---- literals the code compares against ---- *)']
    for n, v in T['literals']:
        o.append('Definition %s : Z := %d.' % (n, v))
    o += ['', '(* _symmetric_key_algorithms: CryptographicAlgorithm value -> (block size in bits, 0 = stream cipher; key sizes in bits) *)',
          'Definition sym_algs : list (Z * (Z * list Z)) := [',
          ';\n'.join('  (%d, (%d, %s)) (* %s *)' % (v, bs, _zl(ks), cn) for v, cn, bs, ks in T['sym']), '].', '',
          '(* _asymmetric_key_algorithms keys *)', 'Definition asym_algs : list Z := %s.' % _zl(T['asym']), '',
          '(* hash ids: 1 md5, 2 sha1, 3 sha224, 4 sha256, 5 sha384, 6 sha512 *)',
          'Definition hash_digest_size : list (Z * Z) := %s.' % ('[' + '; '.join('(%d, %d)' % v for v in sorted(HASH_IDS.values())) + ']'),
          '(* _hash_algorithms: CryptographicAlgorithm value -> hash id *)',
          'Definition hmac_algs : list (Z * Z) := [%s].' % '; '.join('(%d, %d)' % p for p in T['hmac']),
          '(* _encryption_hash_algorithms: HashingAlgorithm value -> hash id *)',
          'Definition enc_hashes : list (Z * Z) := [%s].' % '; '.join('(%d, %d)' % p for p in T['hash']), '',
          '(* _modes: BlockCipherMode value -> true when the mode class has `initialization_vector` or `nonce` *)',
          'Definition cipher_modes : list (Z * bool) := [',
          ';\n'.join('  (%d, %s) (* %s *)' % (v, 'true' if iv else 'false', cn) for v, cn, iv in T['modes']), '].', '',
          '(* _asymmetric_padding_methods: PaddingMethod value -> 0 OAEP, 1 PKCS1v15, 2 PSS *)',
          'Definition asym_paddings : list (Z * Z) := [%s].' % '; '.join('(%d, %d)' % p for p in T['apad']),
          '(* _symmetric_padding_methods: PaddingMethod value -> 0 PKCS7, 1 ANSI X.923 *)',
          'Definition sym_paddings : list (Z * Z) := [%s].' % '; '.join('(%d, %d)' % p for p in T['spad']), '',
          '(* _digital_signature_algorithms: DigitalSignatureAlgorithm value -> (hash id, CryptographicAlgorithm value) *)',
          'Definition dsa_algs : list (Z * (Z * Z)) := [%s].' % '; '.join('(%d, (%d, %d))' % p for p in T['dsa']), '',
          '(* _no_mode_needed / _no_padding_needed: defined by __init__, read by no method *)',
          'Definition no_mode_needed : list Z := %s.' % _zl(T['no_mode_needed']),
          'Definition no_padding_needed : list Z := %s.' % _zl(T['no_padding_needed']), '',
          '(* ---- installed library (probed): (algorithm, mode or -1 for none) -> key sizes an encryptor can be built for ---- *)',
          'Definition lib_cipher_ok : list ((Z * Z) * list Z) := [',
          ';\n'.join('  ((%d, %s), %s)' % (a, '(-1)' if m < 0 else str(m), _zl(g)) for a, m, g in lib), '].',
          '(* algorithm -> key sizes CMAC can be built for *)',
          'Definition lib_cmac_ok : list (Z * list Z) := [%s].' % '; '.join('(%d, %s)' % (a, _zl(g)) for a, g in cm), '']
    return {'CryptoTables.v': '\n'.join(o) + '\n'}
