"""kmip/core/enums.py -> gen/Enums.v : every enumeration as a list of (name, value)."""
import enum
import importlib


def generate(repo):
    enums = importlib.import_module('kmip.core.enums')
    out = ['(* GENERATED from kmip/core/enums.py by translate/gen_enums.py - do not edit *)',
           'From Coq Require Import ZArith List String.', 'Import ListNotations.', 'Open Scope Z_scope.', 'Open Scope string_scope.', '']
    names = []
    for name in sorted(dir(enums)):
        obj = getattr(enums, name)
        if isinstance(obj, type) and issubclass(obj, enum.Enum) and obj.__module__ == enums.__name__:
            members = []
            for m in obj:       # aliases are skipped by iteration; list them too
                pass
            for mname, m in obj.__members__.items():
                v = m.value
                if isinstance(v, bool) or not isinstance(v, int):
                    members = None
                    break
                members.append((mname, v))
            if members is None:
                continue
            names.append(name)
            out.append('Definition E_%s : list (string * Z) := [' % name)
            out.append(';\n'.join('  ("%s", %s)' % (n, '(%d)' % v if v < 0 else str(v)) for n, v in members))
            out.append('].')
            out.append('Definition EV_%s : list Z := map snd E_%s.' % (name, name))
            out.append('')
    out.append('Definition all_enums : list (string * list (string * Z)) := [')
    out.append(';\n'.join('  ("%s", E_%s)' % (n, n) for n in names))
    out.append('].')
    return {'Enums.v': '\n'.join(out) + '\n'}
