"""Tie T for the TTLV structure classes: read()/write() pairs -> gen/Schemas.v (+ gen/schemas.json).

For every class that defines its own `read` and `write` in
    kmip/core/{objects,attributes,secrets,misc}.py
    kmip/core/messages/{contents,messages}.py
    kmip/core/messages/payloads/*.py
the two method bodies are walked with `ast` and matched against a CLOSED set
of idioms (see `ReadWalker` / `WriteWalker`).  The reader yields `c_rd` (reader
order, reader guards, reader multiplicities), the writer yields `c_wr` (writer
order, guards, multiplicities); the (tag, kind) of a written field is the one
the reader constructs for the same attribute.  Nothing is merged: an edit of
one of the two methods makes `env_ok E` (Codec/Schema.v) evaluate to false.

Fail closed: a construct outside the idiom set raises `Untranslatable`
(file:line) unless the class is listed in translate/HANDMODELLED.txt.  Listed
classes, and every class that transitively contains one, are left out of
Schemas.v and reported by name (`info()['excluded']`).  A class that is listed
although it translates cleanly is reported too (`listed_but_translatable`).
"""
import ast
import importlib
import inspect
import json
import pkgutil
import sys
from pathlib import Path
SCHEMA_V_TEXT = (Path(__file__).resolve().parent.parent / 'coq' / 'theories' / 'Codec' / 'Schema.v').read_text()


def coq_posts(posts):
    """posts: list of dicts {'lo', 'hi', 'check': ('AtLeastOneOf', [ix...]) | ('RequiredIf', ix, key, coq_pval_text)} -> Coq list of post records"""
    out = []
    for q in posts:
        c = q['check']
        if c[0] == 'AtLeastOneOf':
            chk = '(AtLeastOneOf [%s])' % '; '.join('%d%%nat' % i for i in c[1])
        elif c[0] == 'RequiredIf':
            chk = '(RequiredIf %d%%nat %d%%nat %s)' % (c[1], c[2], c[3])
        else:
            raise ValueError('unknown post check %r' % (c,))
        out.append('{| p_lo := %d; p_hi := %d; p_check := %s |}' % (q['lo'], q['hi'], chk))
    return '[' + '; '.join(out) + ']'

HERE = Path(__file__).resolve().parent
VERSION_CODES = {'KMIP_1_0': 10, 'KMIP_1_1': 11, 'KMIP_1_2': 12, 'KMIP_1_3': 13, 'KMIP_1_4': 14, 'KMIP_2_0': 20}
LO_MIN, HI_MAX = 0, 1000
PTYPE_BY_CODE = {2: 'PInt', 3: 'PLong', 4: 'PBig', 6: 'PBool', 7: 'PText', 8: 'PBytes', 9: 'PDate', 10: 'PInterval'}
PRIM_BASE_BY_CODE = {2: 'Integer', 3: 'LongInteger', 4: 'BigInteger', 5: 'Enumeration', 6: 'Boolean',
                     7: 'TextString', 8: 'ByteString', 9: 'DateTime', 10: 'Interval'}
MODULES = ['kmip.core.objects', 'kmip.core.attributes', 'kmip.core.secrets', 'kmip.core.misc',
           'kmip.core.messages.contents', 'kmip.core.messages.messages']


class Untranslatable(Exception):
    def __init__(self, file, line, msg):
        Exception.__init__(self, '%s:%s: %s' % (file, line, msg))
        self.file, self.line, self.msg = file, line, msg


# ------------------------------------------------------------------ helpers on ast
def _is_name(n, name):
    return isinstance(n, ast.Name) and n.id == name


def _self_attr(n):
    """`self.<attr>` -> attr, else None."""
    if isinstance(n, ast.Attribute) and _is_name(n.value, 'self'):
        return n.attr
    return None


def _dump(n):
    try:
        return ast.unparse(n).replace('\n', ' ')[:120]
    except Exception:
        return ast.dump(n)[:120]


def _is_docstring(s):
    return isinstance(s, ast.Expr) and isinstance(s.value, ast.Constant) and isinstance(s.value.value, str)


def _kv_ok(call):
    """the call passes kmip_version=kmip_version (or no version at all -> False)"""
    for kw in call.keywords:
        if kw.arg == 'kmip_version' and _is_name(kw.value, 'kmip_version'):
            return True
    return False


class ClassCtx:
    """Everything the walkers need to know about one class."""

    def __init__(self, mod, cls, cdef, relfile):
        self.mod, self.cls, self.cdef, self.file = mod, cls, cdef, relfile
        self.name = cls.__name__

    def err(self, node, msg):
        return Untranslatable(self.file, getattr(node, 'lineno', '?'), '%s: %s' % (self.name, msg))

    def evaluate(self, node):
        """Evaluate an expression of the method body in the defining module's namespace."""
        for sub in ast.walk(node):
            if isinstance(sub, ast.Name) and sub.id in ('self', 'kmip_version'):
                raise self.err(node, 'expression depends on %s: %s' % (sub.id, _dump(node)))
        try:
            code = compile(ast.fix_missing_locations(ast.Expression(node)), self.file, 'eval')
            return eval(code, self.mod.__dict__)
        except Untranslatable:
            raise
        except Exception as e:
            raise self.err(node, 'cannot evaluate %s (%s: %s)' % (_dump(node), type(e).__name__, e))

    def field_of(self, node):
        """`self._x` / `self.x` (property returning self._x or self._x.value) -> ('x', truthy_on_value)."""
        a = _self_attr(node)
        if a is None:
            return None
        p = inspect.getattr_static(self.cls, a, None)
        if isinstance(p, property) and p.fget is not None:
            try:
                src = inspect.getsource(p.fget)
                import textwrap
                tree = ast.parse(textwrap.dedent(src))
            except Exception as e:
                raise self.err(node, 'cannot read the getter of property %s (%s)' % (a, e))
            attrs = sorted({_self_attr(n) for n in ast.walk(tree) if _self_attr(n)})
            if len(attrs) != 1:
                raise self.err(node, 'property %s reads %s, expected exactly one backing attribute' % (a, attrs))
            returns_value = any(isinstance(n, ast.Attribute) and n.attr == 'value' and _self_attr(n.value)
                                for n in ast.walk(tree))
            returns_obj = any(isinstance(n, ast.Return) and n.value is not None and _self_attr(n.value)
                              for n in ast.walk(tree))
            return attrs[0].lstrip('_'), ('value' if returns_value else ('object' if returns_obj else 'other'))
        return a.lstrip('_'), 'object'


def version_test(test):
    """`kmip_version < / >= enums.KMIPVersion.KMIP_x_y` -> (op, code) or None."""
    if isinstance(test, ast.Compare) and len(test.ops) == 1 and _is_name(test.left, 'kmip_version'):
        c = test.comparators[0]
        if isinstance(c, ast.Attribute) and c.attr in VERSION_CODES and isinstance(c.value, ast.Attribute) \
                and c.value.attr == 'KMIPVersion':
            if isinstance(test.ops[0], ast.Lt):
                return ('<', VERSION_CODES[c.attr])
            if isinstance(test.ops[0], ast.GtE):
                return ('>=', VERSION_CODES[c.attr])
    return None


def version_refusal(s):
    """`if kmip_version < V: raise exceptions.VersionNotSupported(...)` -> V"""
    if isinstance(s, ast.If) and not s.orelse and len(s.body) == 1 and isinstance(s.body[0], ast.Raise):
        vt = version_test(s.test)
        exc = s.body[0].exc
        if vt and vt[0] == '<' and isinstance(exc, ast.Call) and getattr(exc.func, 'attr', None) == 'VersionNotSupported':
            return vt[1]
    return None


def check_validate(ctx, node, prim_fields=()):
    """`self.validate()` inside read/write is accepted when validate() can only raise TypeError
    (type checks on the attributes: never triggered by objects the reader itself constructed)."""
    import textwrap
    seen, todo = set(), ['validate']
    while todo:
        name = todo.pop()
        if name in seen:
            continue
        seen.add(name)
        fn = None
        for k in ctx.cls.__mro__:
            for cand in (name, '_%s%s' % (k.__name__, name) if name.startswith('__') else name):
                if cand in k.__dict__:
                    fn = k.__dict__[cand]
                    break
            if fn is not None:
                break
        if fn is None:
            raise ctx.err(node, 'validate(): cannot find method %s' % name)
        tree = ast.parse(textwrap.dedent(inspect.getsource(fn)))
        for n in ast.walk(tree):
            if isinstance(n, ast.Raise):
                e = n.exc
                if not (isinstance(e, ast.Call) and _is_name(e.func, 'TypeError')):
                    raise ctx.err(node, 'validate() may raise something other than TypeError (line %s of %s): a value check is not expressible' % (n.lineno, name))
            if isinstance(n, ast.Call) and _self_attr(n.func) and _self_attr(n.func) != 'validate':
                todo.append(_self_attr(n.func))
            if isinstance(n, ast.Call) and isinstance(n.func, ast.Attribute) and n.func.attr in ('validate',) \
                    and not _self_attr(n.func):
                tgt = _self_attr(n.func.value)
                if tgt is None or tgt.lstrip('_') not in prim_fields:
                    raise ctx.err(node, 'validate() delegates to an object that is not one of its primitive items')


ANY_ATTR_TEMPLATES = {
    # Attributes.read: zero or more attributes of any kind, until fewer than 3 bytes remain or the next tag is not a Tags member
    'rd_many': """
while True:
    if len(BUF) < 3:
        break
    tag = struct.unpack('!I', b'\\x00' + BUF.peek(3))[0]
    if enums.is_enum_value(enums.Tags, tag):
        tag = enums.Tags(tag)
        if not enums.is_attribute(tag, kmip_version=kmip_version):
            raise X
        value = self.FACT.create_attribute_value_by_enum(tag, None)
        value.read(BUF, kmip_version=kmip_version)
        self.FIELD.append(value)
    else:
        break
""",
    # CurrentAttribute / NewAttribute .read: exactly one attribute of any kind
    'rd_one': """
if len(BUF) < 3:
    raise X
tag = struct.unpack('!I', b'\\x00' + BUF.peek(3))[0]
if enums.is_enum_value(enums.Tags, tag):
    tag = enums.Tags(tag)
    if enums.is_attribute(tag, kmip_version=kmip_version):
        value = self.FACT.create_attribute_value_by_enum(tag, None)
        value.read(BUF, kmip_version=kmip_version)
        self.FIELD = value
    else:
        raise X
else:
    raise X
""",
    'wr_many': """
for attribute in self.FIELD:
    tag = attribute.tag
    if not enums.is_attribute(tag, kmip_version=kmip_version):
        raise X
    attribute.write(BUF, kmip_version=kmip_version)
""",
    'wr_one': """
if self.FIELD:
    tag = self.FIELD.tag
    if not enums.is_attribute(tag, kmip_version=kmip_version):
        raise X
    self.FIELD.write(BUF, kmip_version=kmip_version)
else:
    raise X
""",
}
_FIXED_NAMES = {'self', 'enums', 'struct', 'kmip_version', 'len', 'True', 'False', 'None'}


def canon(nodes):
    """Shape of a statement list with `raise ...` reduced to a bare raise, local names and attributes of self renamed
    by order of first appearance -> (dump, [self attributes in order], [local names in order])"""
    import copy
    nodes = [copy.deepcopy(n) for n in nodes]
    attrs, names = [], []

    class T(ast.NodeTransformer):
        def visit_Raise(self, n):
            return ast.Raise(exc=None, cause=None)

        def visit_Attribute(self, n):
            if _is_name(n.value, 'self'):
                if n.attr not in attrs:
                    attrs.append(n.attr)
                return ast.Attribute(value=ast.Name(id='self', ctx=ast.Load()), attr='A%d' % attrs.index(n.attr), ctx=ast.Load())
            self.generic_visit(n)
            return n

        def visit_Name(self, n):
            if n.id in _FIXED_NAMES:
                return ast.Name(id=n.id, ctx=ast.Load())
            if n.id not in names:
                names.append(n.id)
            return ast.Name(id='L%d' % names.index(n.id), ctx=ast.Load())

    out = []
    for n in nodes:
        n = T().visit(n)
        for sub in ast.walk(n):
            if hasattr(sub, 'ctx'):
                sub.ctx = ast.Load()
        out.append(ast.dump(n))
    return '|'.join(out), attrs, names


def match_any_attr(which, nodes):
    """-> dict(FIELD=..., FACT=..., BUF=...) when the statements have exactly the shape of the template, else None"""
    tmpl = ast.parse(ANY_ATTR_TEMPLATES[which]).body
    td, tattrs, tnames = canon(tmpl)
    d, attrs, names = canon(nodes)
    if d != td or len(attrs) != len(tattrs) or len(names) != len(tnames):
        return None
    out = dict(zip(tattrs, attrs))
    out.update({tn: n for tn, n in zip(tnames, names) if tn in ('BUF',)})
    return out


def post_both_none(ctx, s):
    """`if (self._a is None) and (self._b is None) [and ...]: raise` -> [fields]"""
    if not (isinstance(s, ast.If) and not s.orelse and len(s.body) == 1 and isinstance(s.body[0], ast.Raise)
            and isinstance(s.test, ast.BoolOp) and isinstance(s.test.op, ast.And) and len(s.test.values) >= 2):
        return None
    out = []
    for t in s.test.values:
        if not (isinstance(t, ast.Compare) and len(t.ops) == 1 and isinstance(t.ops[0], ast.Is)
                and isinstance(t.comparators[0], ast.Constant) and t.comparators[0].value is None and _self_attr(t.left)):
            return None
        out.append(ctx.field_of(t.left)[0])
    return out


def post_equal_means_both_absent(ctx, s):
    """`if self._a == self._b: raise` -> [a, b]   (the caller verifies that == can only hold when both are None)"""
    if isinstance(s, ast.If) and not s.orelse and len(s.body) == 1 and isinstance(s.body[0], ast.Raise) \
            and isinstance(s.test, ast.Compare) and len(s.test.ops) == 1 and isinstance(s.test.ops[0], ast.Eq) \
            and _self_attr(s.test.left) and _self_attr(s.test.comparators[0]):
        return [ctx.field_of(s.test.left)[0], ctx.field_of(s.test.comparators[0])[0]]
    return None


def post_required_if(ctx, stmts):
    """else branch `x = <enum member>; if self.<key> == x: raise`, or its elif form `elif self.<key> == <enum member>: raise`
    -> (key field, member)"""
    if len(stmts) == 1 and isinstance(stmts[0], ast.If) and not stmts[0].orelse and _single_raise(stmts[0].body):
        t = stmts[0].test
        if isinstance(t, ast.Compare) and len(t.ops) == 1 and isinstance(t.ops[0], ast.Eq) and _self_attr(t.left) \
                and isinstance(t.comparators[0], ast.Attribute) and not any(_is_name(n, 'self') for n in ast.walk(t.comparators[0])):
            import enum as _enum
            member = ctx.evaluate(t.comparators[0])
            if not isinstance(member, _enum.Enum) or isinstance(member.value, bool) or not isinstance(member.value, int):
                raise ctx.err(stmts[0], 'the compared value is not an integer enumeration member')
            return ctx.field_of(t.left)[0], member
    if len(stmts) == 2 and isinstance(stmts[0], ast.Assign) and len(stmts[0].targets) == 1 and isinstance(stmts[0].targets[0], ast.Name) \
            and isinstance(stmts[1], ast.If) and not stmts[1].orelse and len(stmts[1].body) == 1 and isinstance(stmts[1].body[0], ast.Raise):
        t = stmts[1].test
        x = stmts[0].targets[0].id
        if isinstance(t, ast.Compare) and len(t.ops) == 1 and isinstance(t.ops[0], ast.Eq) and _self_attr(t.left) \
                and _is_name(t.comparators[0], x):
            import enum as _enum
            member = ctx.evaluate(stmts[0].value)
            if not isinstance(member, _enum.Enum) or isinstance(member.value, bool) or not isinstance(member.value, int):
                raise ctx.err(stmts[0], 'the compared value is not an integer enumeration member')
            return ctx.field_of(t.left)[0], member
    return None


def resolve_posts(ctx, node, items, posts, minver):
    """field names -> indices among the ACTIVE items; the indices must be the same for every version of the check's range"""
    out = []
    for q in posts:
        lo, hi = q['guard']
        if minver is not None:
            lo = max(lo, minver)
        versions = [v for v in sorted(VERSION_CODES.values()) if lo <= v < hi]
        if not versions:
            continue

        def index(field, v):
            act = [it for it in items if it['lo'] <= v < it['hi']]
            hit = [k for k, it in enumerate(act) if it['field'] == field]
            if len(hit) != 1:
                raise ctx.err(node, 'post-condition on %s: not exactly one active item under version %d' % (field, v))
            return hit[0], act[hit[0]]
        c = q['check']
        forms = set()
        for v in versions:
            if c[0] == 'AtLeastOneOf':
                forms.add(('AtLeastOneOf', tuple(index(f, v)[0] for f in c[1])))
            else:
                ix, it = index(c[1], v)
                key, kit = index(c[2], v)
                if kit['kind'] != ('enum', type(c[3]).__name__) or kit['mult'] not in ('Req', 'Opt'):
                    raise ctx.err(node, 'post-condition: %s is not a single enumeration item of %s' % (c[2], type(c[3]).__name__))
                forms.add(('RequiredIf', ix, key, '(VEnum %d)' % c[3].value))
        if len(forms) != 1:
            raise ctx.err(node, 'post-condition: the positions of its fields change with the version inside its range')
        f = next(iter(forms))
        out.append({'lo': lo, 'hi': hi, 'check': [f[0], list(f[1])] if f[0] == 'AtLeastOneOf' else list(f)})
    return out


def copy_node(n):
    import copy
    return copy.deepcopy(n)


def narrow(guard, op, code, negate=False):
    lo, hi = guard
    if (op == '<') != negate:
        return (lo, min(hi, code))
    return (max(lo, code), hi)


def mentions_version(node):
    return any(_is_name(n, 'kmip_version') for n in ast.walk(node)
               if not (isinstance(n, ast.keyword)))


# ------------------------------------------------------------------ element kinds
class Kinds:
    """Classifies the object a reader constructs: primitive (+ named subclasses), enumeration, structure."""

    def __init__(self, classes):
        self.classes = classes            # name -> class object, the 105 structure classes
        self.primitives = importlib.import_module('kmip.core.primitives')
        self.enums = importlib.import_module('kmip.core.enums')
        self.stubs = {}
        self.tables = {}            # name -> {'factory', 'rows': [[tag, kind, lo, hi]], 'dropped'}

    def tagged_table(self, ctx, node, fact_attr):
        """The table behind the KMIP 2.0 any-attribute items: for every member of enums.Tags, the versions under which
        enums.is_attribute holds and the item the class's attribute value factory builds for it (by execution)."""
        inst = ctx.cls()
        factory = getattr(inst, fact_attr)
        name = 'attributes'
        fkey = type(factory).__module__ + '.' + type(factory).__name__
        if self.tables.get(name) and self.tables[name]['factory'] != fkey:
            raise ctx.err(node, 'a second attribute value factory class (%s) is used for any-attribute items' % fkey)
        if name in self.tables:
            return name
        E = self.enums
        vmem = [(code, getattr(E.KMIPVersion, nm)) for nm, code in sorted(VERSION_CODES.items(), key=lambda kv: kv[1])]
        codes = [c for c, _ in vmem]
        rows, dropped = [], {}
        for tag in E.Tags:
            act = [bool(E.is_attribute(tag, kmip_version=vm)) for _, vm in vmem]
            if not any(act):
                continue
            try:
                obj = factory.create_attribute_value_by_enum(tag, None)
                if obj is None:
                    raise ValueError('the factory returns None')
                t, kind = self.classify(ctx, node, obj)
                if t != tag.value:
                    raise ValueError('the factory product carries tag %#x' % t)
            except Untranslatable as e:
                dropped[tag.name] = e.msg
                continue
            except Exception as e:
                dropped[tag.name] = '%s: %s' % (type(e).__name__, e)
                continue
            # maximal runs of versions under which the tag is an attribute
            k = 0
            while k < len(codes):
                if act[k]:
                    j = k
                    while j + 1 < len(codes) and act[j + 1]:
                        j += 1
                    lo = LO_MIN if k == 0 else codes[k]
                    hi = HI_MAX if j == len(codes) - 1 else codes[j + 1]
                    rows.append([tag.value, list(kind), lo, hi])
                    k = j + 1
                else:
                    k += 1
        self.tables[name] = {'factory': fkey, 'rows': rows, 'dropped': dropped}
        return name

    def struct_owner(self, ctx, node, obj):
        t = type(obj)
        rd = next((k for k in t.__mro__ if 'read' in k.__dict__), None)
        wr = next((k for k in t.__mro__ if 'write' in k.__dict__), None)
        if rd is None or rd is not wr:
            raise ctx.err(node, 'class %s takes read and write from different classes' % t.__name__)
        if rd is self.primitives.Base:
            # a Struct subclass without read/write of its own (contents.MessageExtension): Base.read consumes the 8 header
            # bytes only and Base.write emits the header only.  As the LAST item of a structure that checks is_oversized
            # this behaves exactly like a structure without items that checks is_oversized (any body byte is refused,
            # by the enclosing check in the code, by the stub's own check in the model); translate_class verifies the position.
            self.stubs[t.__name__] = t
            return t.__name__
        if self.classes.get(rd.__name__) is not rd:
            raise ctx.err(node, 'class %s: read/write owner %s is not a translated class' % (t.__name__, rd.__name__))
        return rd.__name__

    def classify(self, ctx, node, obj):
        """-> (tag:int, kind:tuple) with kind ('prim', PType) | ('enum', EnumName) | ('struct', ClassName)"""
        P = self.primitives
        if not isinstance(obj, P.Base):
            raise ctx.err(node, 'constructed object is not a TTLV item: %r' % type(obj))
        tag = obj.tag
        if type(tag) is not self.enums.Tags:
            raise ctx.err(node, 'constructed object has no Tags member as tag: %r' % (tag,))
        if isinstance(obj, P.Struct):
            return tag.value, ('struct', self.struct_owner(ctx, node, obj))
        code = obj.type.value
        base = getattr(P, PRIM_BASE_BY_CODE.get(code, ''), None)
        if base is None or not isinstance(obj, base):
            raise ctx.err(node, 'primitive %s has type code %s but is not a %s' % (type(obj).__name__, code, base))
        t = type(obj)
        for meth in ('read', 'write', 'read_value', 'write_value', 'validate', '_Base__validate', '__validate'):
            if getattr(t, meth, None) is not getattr(base, meth, None):
                raise ctx.err(node, 'primitive subclass %s overrides %s' % (t.__name__, meth))
        if code == 5:
            e = obj.enum
            if getattr(self.enums, getattr(e, '__name__', ''), None) is not e:
                raise ctx.err(node, 'enumeration class %r is not a member of kmip.core.enums' % (e,))
            for m in e:
                if isinstance(m.value, bool) or not isinstance(m.value, int):
                    raise ctx.err(node, 'enumeration %s has non-integer members' % e.__name__)
            return tag.value, ('enum', e.__name__)
        return tag.value, ('prim', PTYPE_BY_CODE[code])


# ------------------------------------------------------------------ reader
class ReadWalker:
    def __init__(self, ctx, kinds):
        self.ctx, self.kinds = ctx, kinds
        self.items = []             # dicts: field, tag, kind, lo, hi, mult, line
        self.header = False
        self.instream = None
        self.buf = None             # name of the stream items are read from
        self.substream = False
        self.oversize = False
        self.done = False           # is_oversized seen: nothing may follow
        self.local_lists = {}       # local list variable -> items appended through it
        self.flags = set()
        self.pending = {}           # constructed, not yet read (old style: construct all, then read all)
        self.attr_of = {}           # field -> raw attribute name on self
        self.rebind = None          # index of the ProtocolVersion item kmip_version is rebound from
        self.rebind_nested = None   # ... or class of the header item whose ProtocolVersion it is rebound from
        self.posts = []             # post-conditions: {'guard', 'check': ('AtLeastOneOf', [fields]) | ('RequiredIf', field, key, member)}
        self.minver = None          # class-level refusal `if kmip_version < V: raise VersionNotSupported`

    # -- recognisers
    def tag_next_test(self, test):
        """`self.is_tag_next(TAG, buf)` -> tag value"""
        if isinstance(test, ast.Call) and _self_attr(test.func) == 'is_tag_next' and len(test.args) == 2 \
                and not test.keywords:
            if not _is_name(test.args[1], self.buf):
                raise self.ctx.err(test, 'is_tag_next peeks %s, items are read from %s' % (_dump(test.args[1]), self.buf))
            tag = self.ctx.evaluate(test.args[0])
            if type(tag) is not self.kinds.enums.Tags:
                raise self.ctx.err(test, 'is_tag_next argument is not a Tags member')
            return tag.value
        return None

    def read_call(self, s):
        """`<target>.read(buf, kmip_version=kmip_version)` -> (target node, has_version)"""
        if isinstance(s, ast.Expr) and isinstance(s.value, ast.Call) and isinstance(s.value.func, ast.Attribute) \
                and s.value.func.attr == 'read':
            call = s.value
            if len(call.args) < 1 or not _is_name(call.args[0], self.buf):
                raise self.ctx.err(s, 'read() from %s, expected %s' % (_dump(call.args[0]) if call.args else '?', self.buf))
            has_v = _kv_ok(call) or (len(call.args) == 2 and _is_name(call.args[1], 'kmip_version'))
            extra = [k.arg for k in call.keywords if k.arg != 'kmip_version']
            if extra or len(call.args) > 2:
                raise self.ctx.err(s, 'read() with unexpected arguments %s' % extra)
            return call.func.value, has_v
        return None

    def construct_and_read(self, stmts, what):
        """[target = CTOR; target.read(buf, v); (self._x = target)] -> (field, tag, kind, ctor node)"""
        if len(stmts) not in (2, 3, 4):
            raise self.ctx.err(stmts[0], '%s: expected <construct>; <read>, got %d statements' % (what, len(stmts)))
        a = stmts[0]
        if not (isinstance(a, ast.Assign) and len(a.targets) == 1 and isinstance(a.value, ast.Call)):
            raise self.ctx.err(a, '%s: expected an assignment of a constructor call: %s' % (what, _dump(a)))
        target = a.targets[0]
        rc = self.read_call(stmts[1])
        if rc is None:
            raise self.ctx.err(stmts[1], '%s: expected <obj>.read(...): %s' % (what, _dump(stmts[1])))
        if ast.dump(rc[0]) != ast.dump(target).replace('Store()', 'Load()'):
            raise self.ctx.err(stmts[1], '%s: read() is called on %s, constructed %s' % (what, _dump(rc[0]), _dump(target)))
        field_node = target
        if len(stmts) >= 3:
            # the decoded local is stored in self, possibly after a pure conversion (Attributes -> TemplateAttribute,
            # `.value`, `.attributes`): x2 = f(x1); self.<field> = g(x2).  The conversion is not modelled: the schema item is
            # the item decoded from the stream; what the conversion does to the value is tied by K and the oracle only.
            if not isinstance(target, ast.Name):
                raise self.ctx.err(stmts[2], '%s: statements after the read of an attribute of self' % what)
            cur = target.id
            for k, b in enumerate(stmts[2:]):
                last = k == len(stmts) - 3
                if not (isinstance(b, ast.Assign) and len(b.targets) == 1):
                    raise self.ctx.err(b, '%s: expected an assignment after the read: %s' % (what, _dump(b)))
                used = {n.id for n in ast.walk(b.value) if isinstance(n, ast.Name)}
                if cur not in used or 'self' in used or self.buf in used or 'kmip_version' in used:
                    raise self.ctx.err(b, '%s: expected a pure function of the decoded item: %s' % (what, _dump(b)))
                if not _is_name(b.value, cur):
                    self.flags.add('convert')
                    self.converted_next = True
                if last:
                    if not _self_attr(b.targets[0]):
                        raise self.ctx.err(b, '%s: expected self.<field> = ...: %s' % (what, _dump(b)))
                    field_node = b.targets[0]
                else:
                    if not isinstance(b.targets[0], ast.Name):
                        raise self.ctx.err(b, '%s: expected a local variable: %s' % (what, _dump(b)))
                    cur = b.targets[0].id
        obj = self.ctx.evaluate(a.value)
        tag, kind = self.kinds.classify(self.ctx, a.value, obj)
        if kind[0] == 'struct' and not rc[1]:
            raise self.ctx.err(stmts[1], '%s: nested structure read without kmip_version=kmip_version' % what)
        return field_node, tag, kind

    def add(self, node, field_node, tag, kind, guard, mult):
        if isinstance(field_node, str):
            field = field_node
        else:
            f = self.ctx.field_of(field_node)
            if f is None:
                raise self.ctx.err(node, 'decoded item is not stored in an attribute of self: %s' % _dump(field_node))
            field = f[0]
        self.items.append({'field': field, 'tag': tag, 'kind': kind, 'lo': guard[0], 'hi': guard[1],
                           'mult': mult, 'line': node.lineno})
        if not isinstance(field_node, str) and _self_attr(field_node):
            self.attr_of[field] = _self_attr(field_node)
        if getattr(self, 'converted_next', False):
            self.items[-1]['converted'] = True
            self.converted_next = False

    # ------------------------------------------------------------------ dispatch on an earlier field
    def decoded_fields_in(self, nodes):
        """indices of the already decoded items whose attribute is read by the given statements"""
        idx = set()
        for b in nodes:
            for n in ast.walk(b):
                a = _self_attr(n)
                if a and isinstance(getattr(n, 'ctx', None), ast.Load):
                    f = self.ctx.field_of(n)
                    for k, it in enumerate(self.items):
                        if f and it['field'] == f[0]:
                            idx.add(k)
        return sorted(idx)

    def touches_stream(self, nodes):
        return any(_is_name(n, self.buf) or _is_name(n, self.instream) for b in nodes for n in ast.walk(b))

    def dispatch_table(self, node, block, product, ix, guard):
        """Run the statements `block` (which choose the class of the next item from the already decoded item number
        ix) once per possible key value and per version, on a fresh instance whose key attribute holds that value;
        `product` is the expression that then holds the object to be read.  -> rows [(key, tag, kind)], dropped keys"""
        import enum as _enum
        key_item = self.items[ix]
        kk = key_item['kind']
        enums_mod = self.kinds.enums
        if kk[0] == 'enum':
            ecls = getattr(enums_mod, kk[1])
            cands = [(('enum', m.value), m) for m in ecls]
        elif kk == ('prim', 'PText'):
            names = []
            for nm in sorted(dir(enums_mod)):
                e = getattr(enums_mod, nm)
                if isinstance(e, type) and issubclass(e, _enum.Enum) and e.__module__ == enums_mod.__name__ and nm == 'AttributeType':
                    names += [m.value for m in e]
            names += ['x-custom', 'x-ID', 'x-Purpose', 'x-']
            cands = [(('text', n), n) for n in names]
        else:
            raise self.ctx.err(node, 'dispatch on item %s of kind %s is not expressible' % (key_item['field'], '/'.join(kk)))
        for it in self.items[:ix + 1]:
            if (it['lo'], it['hi']) != (LO_MIN, HI_MAX):
                raise self.ctx.err(node, 'dispatch key %s comes after a version-guarded item: its index among the active items is not fixed' % key_item['field'])
        if key_item['mult'] not in ('Req', 'Opt'):
            raise self.ctx.err(node, 'dispatch key %s is a repeated item' % key_item['field'])
        key_attr = self.attr_of.get(key_item['field'])
        if key_attr is None:
            raise self.ctx.err(node, 'dispatch key %s is not stored in an attribute of self' % key_item['field'])
        P = self.kinds.primitives
        code = compile(ast.fix_missing_locations(ast.Module(body=[copy_node(b) for b in block], type_ignores=[])), self.ctx.file, 'exec')
        pcode = compile(ast.fix_missing_locations(ast.Expression(copy_node(product))), self.ctx.file, 'eval')
        versions = [v for v in sorted(VERSION_CODES.values()) if guard[0] <= v < guard[1]]
        vmem = {code_: getattr(enums_mod.KMIPVersion, nm) for nm, code_ in VERSION_CODES.items()}
        rows, dropped = [], {}
        for key, pyval in cands:
            results = set()
            for v in versions:
                try:
                    obj = self.ctx.cls()
                    if kk[0] == 'enum':
                        prim = P.Enumeration(ecls, pyval, tag=enums_mod.Tags(key_item['tag']))
                    else:
                        prim = P.TextString(pyval, tag=enums_mod.Tags(key_item['tag']))
                    setattr(obj, key_attr, prim)
                    ns = dict(self.ctx.mod.__dict__)
                    ns.update({'self': obj, 'kmip_version': vmem[v]})
                    exec(code, ns)
                    prod = eval(pcode, ns)
                    if prod is None:
                        raise ValueError('no product')
                    results.add(self.kinds.classify(self.ctx, node, prod))
                except Untranslatable as e:
                    results.add(('untranslatable', e.msg))
                except Exception as e:
                    results.add(('refused', type(e).__name__))
            if len(results) != 1:
                raise self.ctx.err(node, 'dispatch on %s=%r gives different items under different versions: %s' % (key_item['field'], pyval, sorted(map(str, results))))
            r = next(iter(results))
            if r[0] in ('untranslatable', 'refused'):
                dropped[str(key[1])] = '%s: %s' % r
            else:
                rows.append((key, r[0], r[1]))
        if not rows:
            raise self.ctx.err(node, 'dispatch on %s: no key yields a translatable item (%s)' % (key_item['field'], list(dropped.items())[:3]))
        return rows, dropped

    def add_dispatched(self, node, target, block, product, guard, mult, skip, tested_tag=None):
        if self.touches_stream(block):
            raise self.ctx.err(node, 'statements choosing the class of %s read from the stream' % _dump(target))
        keys = self.decoded_fields_in(block)
        if len(keys) != 1:
            raise self.ctx.err(node, 'the class of %s depends on %d earlier items, expected exactly one' % (_dump(target), len(keys)))
        rows, dropped = self.dispatch_table(node, block, product, keys[0], guard)
        if tested_tag is not None and any(t != tested_tag for _, t, _ in rows):
            raise self.ctx.err(node, 'is_tag_next tests tag %#x but a dispatched item carries another tag' % tested_tag)
        self.add(node, target, rows[0][1], rows[0][2], guard, mult)
        it = self.items[-1]
        it['by'] = {'ix': keys[0], 'skip_if_absent': bool(skip), 'key_field': self.items[keys[0]]['field'],
                    'table': [[list(k), t, list(kd)] for k, t, kd in rows], 'dropped': dropped}
        self.flags.add('dispatch')

    def try_dispatch_span(self, stmts, start, guard):
        """F1: <statements that mention an earlier item, none touching the stream>; self.F.read(buf, ...)  -> next index"""
        for j in range(start, min(len(stmts), start + 14)):
            st = stmts[j]
            try:
                rc = self.read_call(st)
            except Untranslatable:
                rc = None
            if rc is not None and _self_attr(rc[0]) and j > start:
                block = stmts[start:j]
                if self.touches_stream(block) or not self.decoded_fields_in(block):
                    return None
                if not rc[1]:
                    raise self.ctx.err(st, 'dispatched item read without kmip_version=kmip_version')
                self.add_dispatched(stmts[start], rc[0], block, rc[0], guard, 'Req', False)
                return j + 1
            # F4: ...; if self.is_tag_next(self.F.tag, buf): self.F.read(buf, ...) [else: raise]   (secret by object type)
            if isinstance(st, ast.If) and j > start and isinstance(st.test, ast.Call) and _self_attr(st.test.func) == 'is_tag_next' \
                    and len(st.test.args) == 2 and _is_name(st.test.args[1], self.buf) and isinstance(st.test.args[0], ast.Attribute) \
                    and st.test.args[0].attr == 'tag' and _self_attr(st.test.args[0].value) and len(st.body) == 1:
                try:
                    rc = self.read_call(st.body[0])
                except Untranslatable:
                    rc = None
                block = stmts[start:j]
                if rc is None or not rc[1] or not _self_attr(rc[0]) or self.touches_stream(block) or not self.decoded_fields_in(block):
                    return None
                fa, fb = self.ctx.field_of(rc[0]), self.ctx.field_of(st.test.args[0].value)
                if not fa or not fb or fa[0] != fb[0]:
                    return None
                if not st.orelse:
                    mult = 'Opt'
                elif len(st.orelse) == 1 and isinstance(st.orelse[0], ast.Raise):
                    mult = 'Req'
                else:
                    return None
                self.add_dispatched(stmts[start], rc[0], block, rc[0], guard, mult, False)
                return j + 1
            # F5: x = <factory>(self.K); if self.is_tag_next(x.tag, buf): self.F = x; self.F.read(buf, ...) [else: raise]
            if isinstance(st, ast.If) and j > start and isinstance(st.test, ast.Call) and _self_attr(st.test.func) == 'is_tag_next' \
                    and len(st.test.args) == 2 and _is_name(st.test.args[1], self.buf) and isinstance(st.test.args[0], ast.Attribute) \
                    and st.test.args[0].attr == 'tag' and isinstance(st.test.args[0].value, ast.Name) and len(st.body) == 2:
                x = st.test.args[0].value.id
                a2, rd2 = st.body
                block = stmts[start:j]
                try:
                    rc = self.read_call(rd2)
                except Untranslatable:
                    rc = None
                if rc is None or not rc[1] or not (isinstance(a2, ast.Assign) and len(a2.targets) == 1 and _self_attr(a2.targets[0])
                                                    and _is_name(a2.value, x)) \
                        or ast.dump(rc[0]) != ast.dump(a2.targets[0]).replace('Store()', 'Load()') \
                        or self.touches_stream(block) or not self.decoded_fields_in(block):
                    return None
                if not st.orelse:
                    mult = 'Opt'
                elif len(st.orelse) == 1 and isinstance(st.orelse[0], ast.Raise):
                    mult = 'Req'
                else:
                    return None
                self.add_dispatched(stmts[start], a2.targets[0], block, ast.Name(id=x, ctx=ast.Load()), guard, mult, False)
                return j + 1
            if self.touches_stream([st]):
                return None
        return None

    def type_next_test(self, test):
        if isinstance(test, ast.Call) and _self_attr(test.func) == 'is_type_next' and len(test.args) == 2 and not test.keywords \
                and _is_name(test.args[1], self.buf):
            t = self.ctx.evaluate(test.args[0])
            if type(t) is not self.kinds.enums.Types:
                raise self.ctx.err(test, 'is_type_next argument is not a Types member')
            return t.value
        return None

    def try_type_peek(self, s, guard):
        """if self.is_type_next(T1, buf): <construct; read> [elif is_type_next(T2): ...] else: <construct; read> | raise
        -> one required item whose kind is chosen by the type byte of the next item (ByNextType)"""
        if self.type_next_test(s.test) is None:
            return False
        rows, node, default_seen = [], s, False
        field = None
        while True:
            ty = self.type_next_test(node.test)
            if ty is None:
                raise self.ctx.err(node, 'type-peek chain mixed with another test')
            fn, tag, kind = self.construct_and_read(node.body, 'if is_type_next')
            rows.append((ty, fn, tag, kind, True))
            if len(node.orelse) == 1 and isinstance(node.orelse[0], ast.If):
                node = node.orelse[0]
                continue
            if len(node.orelse) == 1 and isinstance(node.orelse[0], ast.Raise):
                break
            if node.orelse:
                fn, tag, kind = self.construct_and_read(node.orelse, 'else of is_type_next')
                rows.append((None, fn, tag, kind, False))
                break
            raise self.ctx.err(node, 'type-peek chain without a final else: the item would be optional')
        code_of = {'PInt': 2, 'PLong': 3, 'PBig': 4, 'PBool': 6, 'PText': 7, 'PBytes': 8, 'PDate': 9, 'PInterval': 10}
        table = []
        for ty, fn, tag, kind, explicit in rows:
            own = 1 if kind[0] == 'struct' else 5 if kind[0] == 'enum' else code_of[kind[1]]
            if explicit and ty != own:
                raise self.ctx.err(s, 'branch for type %d decodes an item of type %d' % (ty, own))
            f = self.ctx.field_of(fn)
            if f is None or (field is not None and f[0] != field[0]):
                raise self.ctx.err(s, 'type-peek branches store into different attributes')
            field = f
            if any(r[0] == ['int', own] for r in table):
                raise self.ctx.err(s, 'two type-peek branches for the same type')
            table.append([['int', own], tag, list(kind)])
        self.add(s, rows[0][1], table[0][1], tuple(table[0][2]), guard, 'Req')
        self.items[-1]['by'] = {'src': 'next_type', 'ix': 0, 'skip_if_absent': False, 'key_field': None, 'table': table, 'dropped': {}}
        self.flags.add('v3')
        return True

    def try_dispatch_if_tag(self, s, tag, guard):
        """F2: if self.is_tag_next(T, buf): <choose class from an earlier item>; self.F.read(buf, ...) [else: raise]"""
        body = s.body
        if len(body) < 2:
            return False
        try:
            rc = self.read_call(body[-1])
        except Untranslatable:
            return False
        if rc is None or not _self_attr(rc[0]) or not self.decoded_fields_in(body[:-1]):
            return False
        if not s.orelse:
            mult = 'Opt'
        elif len(s.orelse) == 1 and isinstance(s.orelse[0], ast.Raise):
            mult = 'Req'
        else:
            return False
        self.add_dispatched(s, rc[0], body[:-1], rc[0], guard, mult, False, tested_tag=tag)
        return True

    def try_dispatch_if_present(self, s, guard):
        """F3: if self.K is not None: x = <factory>(self.K...); if self.is_tag_next(x.tag, buf): self.F = x; self.F.read(buf, ...)"""
        t = s.test
        if not (isinstance(t, ast.Compare) and len(t.ops) == 1 and isinstance(t.ops[0], ast.IsNot)
                and isinstance(t.comparators[0], ast.Constant) and t.comparators[0].value is None and _self_attr(t.left)) or s.orelse:
            return False
        keys = self.decoded_fields_in([t.left])
        if len(keys) != 1 or len(s.body) != 2:
            return False
        a, inner = s.body
        if not (isinstance(a, ast.Assign) and len(a.targets) == 1 and isinstance(a.targets[0], ast.Name) and isinstance(inner, ast.If)
                and not inner.orelse and len(inner.body) == 2):
            return False
        x = a.targets[0].id
        it = inner.test
        if not (isinstance(it, ast.Call) and _self_attr(it.func) == 'is_tag_next' and len(it.args) == 2 and _is_name(it.args[1], self.buf)
                and isinstance(it.args[0], ast.Attribute) and it.args[0].attr == 'tag' and _is_name(it.args[0].value, x)):
            return False
        st, rd_ = inner.body
        if not (isinstance(st, ast.Assign) and len(st.targets) == 1 and _self_attr(st.targets[0]) and _is_name(st.value, x)):
            return False
        rc = self.read_call(rd_)
        if rc is None or ast.dump(rc[0]) != ast.dump(st.targets[0]).replace('Store()', 'Load()') or not rc[1]:
            return False
        if self.decoded_fields_in([a]) != keys:
            return False
        self.add_dispatched(s, st.targets[0], [a], ast.Name(id=x, ctx=ast.Load()), guard, 'Opt', True)
        return True

    # -- the walk
    def walk(self, stmts, guard, top=False):
        i = 0
        while i < len(stmts):
            s = stmts[i]
            i += 1
            if _is_docstring(s):
                continue
            if self.done and not (top and isinstance(s, ast.Expr) and isinstance(s.value, ast.Call)
                                  and _self_attr(s.value.func) == 'validate'):
                raise self.ctx.err(s, 'statement after is_oversized(): %s' % _dump(s))
            if not self.header:
                mv = version_refusal(s)
                if top and mv is not None and self.minver is None:
                    self.minver = mv
                    continue
                if top and self.super_read(s):
                    self.header = True
                    continue
                raise self.ctx.err(s, 'expected super().read(...) first: %s' % _dump(s))
            if self.buf is None:
                if top and self.substream_assign(s):
                    continue
                # no sub-stream: items are read straight from the input stream
                self.buf = self.instream
                self.substream = False
                self.flags.add('no_substream')
            # exactly one attribute of any kind (CurrentAttribute / NewAttribute)
            if isinstance(s, ast.If) and i + 1 < len(stmts):
                m = match_any_attr('rd_one', stmts[i - 1:i + 2])
                if m is not None and m['BUF'] == self.buf:
                    tname = self.kinds.tagged_table(self.ctx, s, m['FACT'])
                    self.add(s, ast.Attribute(value=ast.Name(id='self', ctx=ast.Load()), attr=m['FIELD'], ctx=ast.Load()), 0, ('tagged', tname), guard, 'Req')
                    self.flags.add('v4')
                    i += 2
                    continue
            # version guard
            if isinstance(s, ast.If):
                vt = version_test(s.test)
                if vt is not None:
                    self.walk(s.body, narrow(guard, *vt))
                    if s.orelse:
                        self.walk(s.orelse, narrow(guard, *vt, negate=True))
                    continue
                if self.try_type_peek(s, guard):
                    continue
                tag = self.tag_next_test(s.test)
                if tag is not None and self.try_dispatch_if_tag(s, tag, guard):
                    continue
                if tag is None and self.try_dispatch_if_present(s, guard):
                    continue
                if tag is not None:
                    field_node, ctag, kind = self.construct_and_read(s.body, 'if is_tag_next')
                    if ctag != tag:
                        raise self.ctx.err(s, 'is_tag_next tests tag %#x but the constructed item carries %#x' % (tag, ctag))
                    if not s.orelse:
                        mult = 'Opt'
                    elif len(s.orelse) == 1 and isinstance(s.orelse[0], ast.Raise):
                        mult = 'Req'
                    elif len(s.orelse) == 1 and self.is_reset(s.orelse[0], field_node):
                        mult = 'Opt'
                    elif post_required_if(self.ctx, s.orelse):
                        # optional, but required when an earlier enumeration item has a given value
                        mult = 'Opt'
                        key, member = post_required_if(self.ctx, s.orelse)
                        self.add(s, field_node, tag, kind, guard, mult)
                        self.posts.append({'guard': guard, 'check': ('RequiredIf', self.items[-1]['field'], key, member)})
                        self.flags.add('post')
                        continue
                    else:
                        raise self.ctx.err(s.orelse[0], 'else branch of is_tag_next is neither a single raise nor self.<field> = None')
                    self.add(s, field_node, tag, kind, guard, mult)
                    continue
                pf = post_both_none(self.ctx, s)
                if pf:
                    self.posts.append({'guard': guard, 'check': ('AtLeastOneOf', pf)})
                    self.flags.add('post')
                    continue
                pf = post_equal_means_both_absent(self.ctx, s)
                if pf:
                    self.check_eq_means_absent(s, pf)
                    self.posts.append({'guard': guard, 'check': ('AtLeastOneOf', pf)})
                    self.flags.add('post')
                    continue
                ne = self.nonempty_check(s)
                if ne:
                    continue
                raise self.ctx.err(s, 'unrecognised if: %s' % _dump(s.test))
            if isinstance(s, ast.While) and isinstance(s.test, ast.Constant) and s.test.value is True:
                m = match_any_attr('rd_many', [s])
                if m is None or m['BUF'] != self.buf:
                    raise self.ctx.err(s, '`while True` loop that is not the any-attribute loop of Attributes.read')
                tname = self.kinds.tagged_table(self.ctx, s, m['FACT'])
                self.add(s, ast.Attribute(value=ast.Name(id='self', ctx=ast.Load()), attr=m['FIELD'], ctx=ast.Load()), 0, ('tagged', tname), guard, 'Many')
                self.flags.add('v4')
                continue
            if isinstance(s, ast.While):
                tag = self.tag_next_test(s.test)
                if tag is None or s.orelse:
                    raise self.ctx.err(s, 'unrecognised while: %s' % _dump(s.test))
                body = s.body
                if len(body) != 3:
                    raise self.ctx.err(s, 'while is_tag_next: expected construct; read; append')
                field_node, ctag, kind = self.construct_and_read(body[:2], 'while is_tag_next')
                if ctag != tag:
                    raise self.ctx.err(s, 'is_tag_next tests tag %#x but the constructed item carries %#x' % (tag, ctag))
                ap = body[2]
                if not (isinstance(ap, ast.Expr) and isinstance(ap.value, ast.Call)
                        and isinstance(ap.value.func, ast.Attribute) and ap.value.func.attr == 'append'
                        and len(ap.value.args) == 1 and isinstance(field_node, ast.Name)
                        and _is_name(ap.value.args[0], field_node.id)):
                    raise self.ctx.err(ap, 'while is_tag_next: expected <list>.append(<obj>): %s' % _dump(ap))
                lst = ap.value.func.value
                prev = self.items[-1] if self.items else None
                if prev is not None and prev.get('first_of') == ast.dump(lst) and (prev['tag'], prev['kind']) == (tag, kind) \
                        and (prev['lo'], prev['hi']) == guard and prev['mult'] == 'Req':
                    prev['mult'] = 'Many1'          # one element, then `while is_tag_next`: at least one
                    continue
                if isinstance(lst, ast.Name):
                    if lst.id not in self.local_lists:
                        raise self.ctx.err(ap, 'append to a list that was not initialised empty: %s' % lst.id)
                    self.add(s, '<local:%s>' % lst.id, tag, kind, guard, 'Many')
                    self.local_lists[lst.id].append(self.items[-1])
                elif _self_attr(lst):
                    self.add(s, lst, tag, kind, guard, 'Many')
                else:
                    raise self.ctx.err(ap, 'append target not understood: %s' % _dump(lst))
                continue
            # kmip_version = contents.protocol_version_to_kmip_version(self.protocol_version): the rest of the structure is
            # decoded under the version its own ProtocolVersion item announces.  Accepted as an idiom (flag `rebind`): the
            # schema is tied only for inputs whose announced version is the version passed in (harness projection).
            # ... or from the ProtocolVersion of the header structure just decoded (whole messages)
            if top and isinstance(s, ast.Assign) and len(s.targets) == 1 and _is_name(s.targets[0], 'kmip_version') \
                    and isinstance(s.value, ast.Call) and getattr(s.value.func, 'attr', getattr(s.value.func, 'id', None)) == 'protocol_version_to_kmip_version' \
                    and len(s.value.args) == 1 and not s.value.keywords and isinstance(s.value.args[0], ast.Attribute) \
                    and s.value.args[0].attr == 'protocol_version' and _self_attr(s.value.args[0].value):
                ks = self.decoded_fields_in([s.value.args[0].value])
                if len(ks) == 1 and self.items[ks[0]]['kind'][0] == 'struct' and self.items[ks[0]]['mult'] == 'Req' \
                        and ks[0] == len(self.items) - 1 and self.rebind is None:
                    self.rebind = ks[0]
                    self.rebind_nested = self.items[ks[0]]['kind'][1]
                    self.flags.add('rebind')
                    continue
                raise self.ctx.err(s, 'kmip_version rebound from something other than the header just decoded')
            # for _ in range(self.<header>.<count>.value): x = Ctor(); x.read(buf, ...); self.xs.append(x)     (counted loop)
            if top and isinstance(s, ast.For) and not s.orelse and isinstance(s.iter, ast.Call) and _is_name(s.iter.func, 'range') \
                    and len(s.iter.args) == 1 and len(s.body) == 3:
                a = s.iter.args[0]
                if isinstance(a, ast.Attribute) and a.attr == 'value' and isinstance(a.value, ast.Attribute) \
                        and isinstance(a.value.value, ast.Attribute) and _self_attr(a.value.value):
                    ks = self.decoded_fields_in([a.value.value])
                    if len(ks) != 1 or self.items[ks[0]]['kind'][0] != 'struct' or self.items[ks[0]]['mult'] != 'Req':
                        raise self.ctx.err(s, 'counted loop: the count does not come from a required structure item decoded before')
                    field_node, ctag, kind = self.construct_and_read(s.body[:2], 'counted loop')
                    ap = s.body[2]
                    if not (isinstance(ap, ast.Expr) and isinstance(ap.value, ast.Call) and isinstance(ap.value.func, ast.Attribute)
                            and ap.value.func.attr == 'append' and len(ap.value.args) == 1 and isinstance(field_node, ast.Name)
                            and _is_name(ap.value.args[0], field_node.id) and _self_attr(ap.value.func.value)):
                        raise self.ctx.err(ap, 'counted loop: expected self.<list>.append(<obj>)')
                    self.add(s, ap.value.func.value, ctag, kind, guard, 'Counted')
                    self.items[-1]['counted'] = {'ix': ks[0], 'cls': self.items[ks[0]]['kind'][1], 'count_field': a.value.attr.lstrip('_')}
                    self.flags.add('v3')
                    continue
            if top and isinstance(s, ast.Assign) and len(s.targets) == 1 and _is_name(s.targets[0], 'kmip_version') \
                    and isinstance(s.value, ast.Call) and getattr(s.value.func, 'attr', getattr(s.value.func, 'id', None)) == 'protocol_version_to_kmip_version' \
                    and len(s.value.args) == 1 and not s.value.keywords and _self_attr(s.value.args[0]):
                ks = self.decoded_fields_in([s.value.args[0]])
                if len(ks) == 1 and self.items[ks[0]]['kind'] == ('struct', 'ProtocolVersion') and self.items[ks[0]]['mult'] == 'Req' \
                        and ks[0] == len(self.items) - 1 and self.rebind is None:
                    self.rebind = ks[0]
                    self.flags.add('rebind')
                    continue
                raise self.ctx.err(s, 'kmip_version rebound from something other than the ProtocolVersion item just decoded')
            # the class of the next item chosen from an earlier item (attribute value by name, payload by operation, ...)
            if isinstance(s, ast.Assign) and self.decoded_fields_in([s.value]) and not self.touches_stream([s]):
                nxt = self.try_dispatch_span(stmts, i - 1, guard)
                if nxt is not None:
                    i = nxt
                    continue
            # self._f = None directly before the `if is_tag_next` that decodes self._f (reset-before instead of else-reset)
            if isinstance(s, ast.Assign) and len(s.targets) == 1 and _self_attr(s.targets[0]) and isinstance(s.value, ast.Constant) \
                    and s.value.value is None and i < len(stmts) and isinstance(stmts[i], ast.If) and stmts[i].body \
                    and isinstance(stmts[i].body[0], ast.Assign) and len(stmts[i].body[0].targets) == 1 \
                    and ast.dump(stmts[i].body[0].targets[0]) == ast.dump(s.targets[0]) and not stmts[i].orelse:
                continue
            # empty-list initialisation / storing a local list
            if isinstance(s, ast.Assign) and len(s.targets) == 1:
                t, v = s.targets[0], s.value
                empty = (isinstance(v, ast.List) and not v.elts) or \
                        (isinstance(v, ast.Call) and _is_name(v.func, 'list') and not v.args and not v.keywords)
                if empty and isinstance(t, ast.Name):
                    self.local_lists[t.id] = []
                    continue
                if empty and _self_attr(t):
                    continue
                if isinstance(v, ast.Name) and v.id in self.local_lists and _self_attr(t):
                    f = self.ctx.field_of(t)[0]
                    for it in self.local_lists[v.id]:
                        it['field'] = f
                    continue
                # storing a local that was decoded unconditionally
                if isinstance(v, ast.Name) and ('<local:%s>' % v.id) in [it['field'] for it in self.items] and _self_attr(t):
                    f = self.ctx.field_of(t)[0]
                    for it in self.items:
                        if it['field'] == '<local:%s>' % v.id:
                            it['field'] = f
                    continue
                # construction of an item that is read (unconditionally) further down: old style, Req
                if isinstance(v, ast.Call) and (isinstance(t, ast.Name) or _self_attr(t)) and top:
                    key = ast.dump(t).replace('Store()', 'Load()')
                    if key in self.pending:
                        raise self.ctx.err(s, 'item constructed twice before being read: %s' % _dump(t))
                    self.pending[key] = s
                    continue
            rc = self.read_call(s)
            if rc is not None:
                # unconditional <obj>.read(buf): the item is required
                target, has_v = rc
                key = ast.dump(target)
                if key in self.pending:
                    a = self.pending.pop(key)
                    obj = self.ctx.evaluate(a.value)
                    where = a.value
                elif _self_attr(target):
                    # constructed by __init__: look at a default instance
                    try:
                        obj = getattr(self.ctx.cls(), _self_attr(target))
                    except Exception as e:
                        raise self.ctx.err(s, 'cannot inspect the pre-constructed attribute %s (%s)' % (_dump(target), e))
                    where = s
                    self.flags.add('preconstructed')
                else:
                    raise self.ctx.err(s, 'read() on an object of unknown origin: %s' % _dump(target))
                tag, kind = self.kinds.classify(self.ctx, where, obj)
                if kind[0] == 'struct' and not has_v:
                    raise self.ctx.err(s, 'nested structure read without kmip_version=kmip_version')
                if isinstance(target, ast.Name):
                    self.add(s, '<local:%s>' % target.id, tag, kind, guard, 'Req')
                    # `xs.append(obj)` right after: the first element of a repeated field, decoded outside its loop
                    if i < len(stmts):
                        ap = stmts[i]
                        if isinstance(ap, ast.Expr) and isinstance(ap.value, ast.Call) and isinstance(ap.value.func, ast.Attribute) \
                                and ap.value.func.attr == 'append' and len(ap.value.args) == 1 and _is_name(ap.value.args[0], target.id):
                            lst = ap.value.func.value
                            it = self.items[-1]
                            if isinstance(lst, ast.Name) and lst.id in self.local_lists:
                                it['field'] = '<local:%s>' % lst.id
                                self.local_lists[lst.id].append(it)
                            elif _self_attr(lst):
                                it['field'] = self.ctx.field_of(lst)[0]
                            else:
                                raise self.ctx.err(ap, 'append target not understood: %s' % _dump(lst))
                            it['first_of'] = ast.dump(lst)
                            i += 1
                else:
                    self.add(s, target, tag, kind, guard, 'Req')
                continue
            if top and isinstance(s, ast.Expr) and isinstance(s.value, ast.Call) and _self_attr(s.value.func) == 'validate' \
                    and not s.value.args and not s.value.keywords:
                check_validate(self.ctx, s, {it['field'] for it in self.items if it['kind'][0] in ('prim', 'enum')})
                self.flags.add('validate')
                continue
            if isinstance(s, ast.Expr) and isinstance(s.value, ast.Call) and _self_attr(s.value.func) == 'is_oversized':
                c = s.value
                if len(c.args) != 1 or not _is_name(c.args[0], self.buf) or c.keywords:
                    raise self.ctx.err(s, 'is_oversized on %s, items are read from %s' % (_dump(c), self.buf))
                if not top:
                    raise self.ctx.err(s, 'is_oversized inside a conditional block')
                self.oversize = True
                self.done = True
                continue
            raise self.ctx.err(s, 'unrecognised statement in read(): %s' % _dump(s))

    def nonempty_check(self, s):
        """`if len(xs) == 0: raise [else: self._f = xs]` | `if not xs: raise` | `if xs: self._f = xs else: raise`
        directly after the loop that filled the local list xs  ->  the repeated item becomes Many1"""
        t = s.test
        lst, empty_branch, other = None, None, None
        if isinstance(t, ast.Compare) and len(t.ops) == 1 and isinstance(t.ops[0], ast.Eq) \
                and isinstance(t.left, ast.Call) and _is_name(t.left.func, 'len') and len(t.left.args) == 1 \
                and isinstance(t.left.args[0], ast.Name) and isinstance(t.comparators[0], ast.Constant) and t.comparators[0].value == 0:
            lst, empty_branch, other = t.left.args[0].id, s.body, s.orelse
        elif isinstance(t, ast.UnaryOp) and isinstance(t.op, ast.Not) and isinstance(t.operand, ast.Name):
            lst, empty_branch, other = t.operand.id, s.body, s.orelse
        elif isinstance(t, ast.Name):
            lst, empty_branch, other = t.id, s.orelse, s.body
        if lst is None or lst not in self.local_lists:
            return False
        if not (len(empty_branch) == 1 and isinstance(empty_branch[0], ast.Raise)):
            raise self.ctx.err(s, 'emptiness test on %s does not raise on the empty list' % lst)
        items = self.local_lists[lst]
        if len(items) != 1 or items[0] is not self.items[-1] and not all(i.get('alt_of') is items[0] for i in []):
            # the list must have been filled by exactly one loop, the one just before this test
            if not (len({(i['tag'], i['kind']) for i in items}) == 1 and items[-1] is self.items[-1]):
                raise self.ctx.err(s, 'emptiness test on a list filled by several different loops')
        if other:
            if not (len(other) == 1 and isinstance(other[0], ast.Assign) and len(other[0].targets) == 1
                    and _self_attr(other[0].targets[0]) and _is_name(other[0].value, lst)):
                raise self.ctx.err(other[0], 'non-empty branch is not self.<field> = %s' % lst)
            f = self.ctx.field_of(other[0].targets[0])[0]
            for it in items:
                it['field'] = f
        if len(items) == 1:
            items[0]['mult'] = 'Many1'
        else:
            # the same list filled under disjoint version guards: the check applies to whichever loop ran
            for it in items:
                it['mult'] = 'Many1'
        return True

    def check_eq_means_absent(self, node, fields):
        """`self._a == self._b` is used as "both absent": verify that default instances of the two item classes never compare equal"""
        ks = []
        for f in fields:
            its = [it for it in self.items if it['field'] == f]
            if len(its) != 1 or its[0]['kind'][0] != 'struct' or its[0]['mult'] != 'Opt':
                raise self.ctx.err(node, '== between fields that are not optional structure items')
            ks.append(self.kinds.classes[its[0]['kind'][1]])
        if ks[0] is ks[1]:
            raise self.ctx.err(node, '== between two items of the same class can hold for present values')
        a, b = ks[0](), ks[1]()
        if (a == b) is True or (b == a) is True or not (None == None):
            raise self.ctx.err(node, '== between %s and %s can hold for present values' % (ks[0].__name__, ks[1].__name__))

    def is_reset(self, s, field_node):
        return isinstance(s, ast.Assign) and len(s.targets) == 1 and isinstance(s.value, ast.Constant) \
            and s.value.value is None and ast.dump(s.targets[0]) == ast.dump(field_node)

    def read_call_safe(self, s):
        try:
            return self.read_call(s) is not None
        except Untranslatable:
            return False

    def super_read(self, s):
        # super(C, self).read(istream, kmip_version=kmip_version)
        if not (isinstance(s, ast.Expr) and isinstance(s.value, ast.Call)):
            return False
        c = s.value
        f = c.func
        if not (isinstance(f, ast.Attribute) and f.attr == 'read' and isinstance(f.value, ast.Call)
                and _is_name(f.value.func, 'super')):
            return False
        sa = f.value.args
        if sa and not (len(sa) == 2 and _is_name(sa[0], self.ctx.name) and _is_name(sa[1], 'self')):
            raise self.ctx.err(s, 'super() of another class: %s' % _dump(s))
        if not (len(c.args) >= 1 and _is_name(c.args[0], self.instream)):
            raise self.ctx.err(s, 'super().read() not on the input stream')
        if not (_kv_ok(c) or (len(c.args) == 2 and _is_name(c.args[1], 'kmip_version')) or len(c.args) == 1):
            raise self.ctx.err(s, 'super().read() arguments: %s' % _dump(s))
        return True

    def substream_assign(self, s):
        # X = [utils.]BytearrayStream(istream.read(self.length))
        if not (isinstance(s, ast.Assign) and len(s.targets) == 1 and isinstance(s.targets[0], ast.Name)
                and isinstance(s.value, ast.Call)):
            return False
        c = s.value
        fn = c.func.attr if isinstance(c.func, ast.Attribute) else (c.func.id if isinstance(c.func, ast.Name) else None)
        if fn != 'BytearrayStream' or len(c.args) != 1 or c.keywords:
            return False
        a = c.args[0]
        if not (isinstance(a, ast.Call) and isinstance(a.func, ast.Attribute) and a.func.attr == 'read'
                and _is_name(a.func.value, self.instream) and len(a.args) == 1 and _self_attr(a.args[0]) == 'length'
                and not a.keywords):
            raise self.ctx.err(s, 'sub-stream creation not of the form BytearrayStream(istream.read(self.length))')
        self.buf = s.targets[0].id
        self.substream = True
        return True


# ------------------------------------------------------------------ writer
class WriteWalker:
    def __init__(self, ctx):
        self.ctx = ctx
        self.items = []         # dicts: field, lo, hi, mult, test, line
        self.buf = None
        self.ostream = None
        self.trailer = 0        # 0: body, 1: length set, 2: header written, 3: body copied
        self.flags = set()
        self.minver = None
        self.nonempty = set()   # fields guarded by `if len(self._xs) == 0: raise`
        self.key_required = {}  # dispatched field -> fields whose absence makes write() raise before emitting it
        self.posts = []

    def write_call(self, s, buf=None):
        """`<target>.write(buf, kmip_version=kmip_version)` -> target node"""
        if isinstance(s, ast.Expr) and isinstance(s.value, ast.Call) and isinstance(s.value.func, ast.Attribute) \
                and s.value.func.attr == 'write':
            call = s.value
            if isinstance(call.func.value, ast.Call) and _is_name(call.func.value.func, 'super'):
                return None
            if _is_name(call.func.value, self.ostream):
                return None
            if len(call.args) < 1 or not _is_name(call.args[0], self.buf):
                raise self.ctx.err(s, 'write() to %s, expected %s' % (_dump(call.args[0]) if call.args else '?', self.buf))
            has_v = _kv_ok(call) or (len(call.args) == 2 and _is_name(call.args[1], 'kmip_version'))
            extra = [k.arg for k in call.keywords if k.arg != 'kmip_version']
            if extra or len(call.args) > 2:
                raise self.ctx.err(s, 'write() with unexpected arguments')
            return call.func.value, has_v
        return None

    def presence_test(self, test):
        """-> (field, style) for `self._x`, `self._x is not None`, `self.x`, `self.x is not None`, `len(self._x) > 0`"""
        if isinstance(test, ast.Compare) and len(test.ops) == 1 and isinstance(test.ops[0], ast.IsNot) \
                and isinstance(test.comparators[0], ast.Constant) and test.comparators[0].value is None:
            f = self.ctx.field_of(test.left)
            if f:
                return f[0], 'is_not_none'
        f = self.ctx.field_of(test)
        if f:
            # bare truthiness: on the primitive object (always true when set) or on its Python value
            return f[0], ('truthy_value' if f[1] == 'value' else 'truthy_object' if f[1] == 'object' else 'truthy_other')
        return None

    def add(self, node, target, guard, mult, test, has_v):
        f = self.ctx.field_of(target)
        if f is None:
            raise self.ctx.err(node, 'written item is not an attribute of self: %s' % _dump(target))
        self.items.append({'field': f[0], 'lo': guard[0], 'hi': guard[1], 'mult': mult, 'test': test,
                           'line': node.lineno, 'has_v': has_v})

    def nonempty_guard(self, s):
        """`if len(self._xs) == 0: raise` before the loop over self._xs -> field name"""
        if isinstance(s, ast.If) and not s.orelse and len(s.body) == 1 and isinstance(s.body[0], ast.Raise):
            t = s.test
            if isinstance(t, ast.Compare) and len(t.ops) == 1 and isinstance(t.ops[0], ast.Eq) \
                    and isinstance(t.left, ast.Call) and _is_name(t.left.func, 'len') and len(t.left.args) == 1 \
                    and isinstance(t.comparators[0], ast.Constant) and t.comparators[0].value == 0:
                f = self.ctx.field_of(t.left.args[0])
                if f:
                    return f[0]
        return None

    def chain_write(self, stmts):
        """[x1 = f(self.<field>); x2 = g(x1); ...; xn.write(buf, kmip_version=...)] -> (node of self.<field>, has_v)"""
        if len(stmts) < 2 or len(stmts) > 3:
            return None
        wc = self.write_call(stmts[-1])
        if not wc or not isinstance(wc[0], ast.Name):
            return None
        root, cur = None, None
        for b in stmts[:-1]:
            if not (isinstance(b, ast.Assign) and len(b.targets) == 1 and isinstance(b.targets[0], ast.Name)):
                return None
            used = {n.id for n in ast.walk(b.value) if isinstance(n, ast.Name)}
            selfs = [n for n in ast.walk(b.value) if _self_attr(n)]
            if self.buf in used or 'kmip_version' in used:
                return None
            if cur is None:
                if len(selfs) != 1:
                    return None
                root = selfs[0]
            elif selfs or cur not in used:
                return None
            cur = b.targets[0].id
        if wc[0].id != cur:
            return None
        self.flags.add('convert')
        return root, wc[1]

    def for_loop(self, s):
        """`for x in self._xs: x.write(buf, ...)` -> (list node, has_v)"""
        if isinstance(s, ast.For) and isinstance(s.target, ast.Name) and not s.orelse and len(s.body) == 1:
            wc = self.write_call(s.body[0])
            if wc and _is_name(wc[0], s.target.id) and _self_attr(s.iter):
                return s.iter, wc[1]
        return None

    def walk(self, stmts, guard, top=False):
        skip = 0
        for pos, s in enumerate(stmts):
            if skip:
                skip -= 1
                continue
            if _is_docstring(s):
                continue
            # unconditional conversion + write: x = f(self.<field>); [y = g(x);] y.write(buf, ...)  -> required item
            if self.buf is not None and not self.trailer and isinstance(s, ast.Assign) and len(s.targets) == 1 \
                    and isinstance(s.targets[0], ast.Name) and any(_self_attr(n) for n in ast.walk(s.value)):
                for ln in (2, 3):
                    cw = self.chain_write(list(stmts[pos:pos + ln])) if pos + ln <= len(stmts) else None
                    if cw:
                        self.add(s, cw[0], guard, 'Req', 'none', cw[1])
                        skip = ln - 1
                        break
                if skip:
                    continue
            if top and isinstance(s, ast.Expr) and isinstance(s.value, ast.Call) and _self_attr(s.value.func) == 'validate' \
                    and not s.value.args and not s.value.keywords and self.trailer == 0:
                check_validate(self.ctx, s)
                self.flags.add('validate')
                continue
            if self.buf is None:
                mv = version_refusal(s)
                if top and mv is not None and self.minver is None:
                    self.minver = mv
                    continue
                # local_stream = [utils.]BytearrayStream()
                if top and isinstance(s, ast.Assign) and len(s.targets) == 1 and isinstance(s.targets[0], ast.Name) \
                        and isinstance(s.value, ast.Call) and not s.value.args and not s.value.keywords \
                        and (getattr(s.value.func, 'attr', None) == 'BytearrayStream' or _is_name(s.value.func, 'BytearrayStream')):
                    self.buf = s.targets[0].id
                    continue
                raise self.ctx.err(s, 'expected <buf> = BytearrayStream() first: %s' % _dump(s))
            if self.trailer or (top and self.is_trailer_start(s)):
                self.trailer_step(s, top)
                continue
            m = match_any_attr('wr_many', [s]) if isinstance(s, ast.For) else None
            if m is not None and m['BUF'] == self.buf:
                self.add(s, ast.Attribute(value=ast.Name(id='self', ctx=ast.Load()), attr=m['FIELD'], ctx=ast.Load()), guard, 'Many', 'none', True)
                continue
            m = match_any_attr('wr_one', [s]) if isinstance(s, ast.If) else None
            if m is not None and m['BUF'] == self.buf:
                self.add(s, ast.Attribute(value=ast.Name(id='self', ctx=ast.Load()), attr=m['FIELD'], ctx=ast.Load()), guard, 'Req', 'truthy_object', True)
                continue
            ne = self.nonempty_guard(s)
            if ne:
                self.nonempty.add(ne)
                continue
            pf = post_both_none(self.ctx, s) or post_equal_means_both_absent(self.ctx, s)
            if pf:
                self.posts.append({'guard': guard, 'check': ('AtLeastOneOf', pf), 'eq': post_both_none(self.ctx, s) is None})
                continue
            if isinstance(s, ast.If):
                vt = version_test(s.test)
                if vt is not None:
                    self.walk(s.body, narrow(guard, *vt))
                    if s.orelse:
                        self.walk(s.orelse, narrow(guard, *vt, negate=True))
                    continue
                pt = self.presence_test(s.test)
                if pt is None:
                    raise self.ctx.err(s, 'unrecognised if in write(): %s' % _dump(s.test))
                field, style = pt
                if style in ('truthy_value', 'truthy_other'):
                    raise self.ctx.err(s, 'presence of %s is tested on its Python VALUE (`if self.%s:`): a field holding 0 / False / an empty '
                                          'string would be silently dropped; not expressible' % (field, _dump(s.test)))
                body = list(s.body)
                # `if self.<key> is None: raise` in front of the write of a dispatched item (payload without operation):
                # the schema writer refuses the same values (a dispatched item present while its key is absent)
                if len(body) == 2 and isinstance(body[0], ast.If) and not body[0].orelse and len(body[0].body) == 1 \
                        and isinstance(body[0].body[0], ast.Raise) and isinstance(body[0].test, ast.Compare) \
                        and len(body[0].test.ops) == 1 and isinstance(body[0].test.ops[0], ast.Is) \
                        and isinstance(body[0].test.comparators[0], ast.Constant) and body[0].test.comparators[0].value is None \
                        and self.ctx.field_of(body[0].test.left):
                    self.key_required.setdefault(field, set()).add(self.ctx.field_of(body[0].test.left)[0])
                    body = body[1:]
                cw = self.chain_write(body)
                if cw is None and len(body) != 1:
                    raise self.ctx.err(s, 'presence test guards %d statements, expected one write' % len(body))
                b = body[0]
                fl = None if cw else self.for_loop(b)
                wc = cw if cw else (None if fl else self.write_call(b))
                if fl:
                    target, has_v, mult = fl[0], fl[1], 'Many'
                    if s.orelse:
                        if not (len(s.orelse) == 1 and isinstance(s.orelse[0], ast.Raise)):
                            raise self.ctx.err(s.orelse[0], 'else branch of a repeated field is not a single raise')
                        if style == 'is_not_none':
                            raise self.ctx.err(s, '`is not None` test with a raising else on a repeated field: an empty list would be written as nothing')
                        mult = 'Many1'              # `if self._xs: for ... else: raise`: an empty list is refused
                elif wc:
                    target, has_v = wc
                    if not s.orelse:
                        mult = 'Opt'
                    elif len(s.orelse) == 1 and isinstance(s.orelse[0], ast.Raise):
                        mult = 'Req'
                    elif post_required_if(self.ctx, s.orelse):
                        mult = 'Opt'
                        key, member = post_required_if(self.ctx, s.orelse)
                        self.posts.append({'guard': guard, 'check': ('RequiredIf', field, key, member)})
                    else:
                        raise self.ctx.err(s.orelse[0], 'else branch of a presence test is not a single raise')
                else:
                    raise self.ctx.err(b, 'presence test does not guard a write: %s' % _dump(b))
                tf = self.ctx.field_of(target)
                if tf is None or tf[0] != field:
                    raise self.ctx.err(s, 'presence test on %s guards a write of %s' % (field, _dump(target)))
                self.add(s, target, guard, mult, style, has_v)
                continue
            ne = self.nonempty_guard(s)
            if ne:
                self.nonempty.add(ne)
                continue
            fl = self.for_loop(s)
            if fl:
                f = self.ctx.field_of(fl[0])
                self.add(s, fl[0], guard, 'Many1' if f and f[0] in self.nonempty else 'Many', 'none', fl[1])
                continue
            wc = self.write_call(s)
            if wc:
                self.add(s, wc[0], guard, 'Req', 'none', wc[1])
                continue
            raise self.ctx.err(s, 'unrecognised statement in write(): %s' % _dump(s))
        if top and self.trailer != 3:
            raise self.ctx.err(stmts[-1], 'write() does not end with length / header / body emission')

    def is_trailer_start(self, s):
        return isinstance(s, ast.Assign) and len(s.targets) == 1 and _self_attr(s.targets[0]) == 'length'

    def trailer_step(self, s, top):
        if not top:
            raise self.ctx.err(s, 'length/header emission inside a conditional block')
        if self.trailer == 0:
            v = s.value
            # self.length = buf.length()
            if not (isinstance(v, ast.Call) and isinstance(v.func, ast.Attribute) and v.func.attr == 'length'
                    and _is_name(v.func.value, self.buf) and not v.args):
                raise self.ctx.err(s, 'self.length is not <buf>.length(): %s' % _dump(s))
            self.trailer = 1
            return
        if self.trailer == 1:
            c = s.value if isinstance(s, ast.Expr) else None
            ok = isinstance(c, ast.Call) and isinstance(c.func, ast.Attribute) and c.func.attr == 'write' \
                and isinstance(c.func.value, ast.Call) and _is_name(c.func.value.func, 'super') \
                and len(c.args) >= 1 and _is_name(c.args[0], self.ostream)
            if ok:
                sa = c.func.value.args
                ok = (not sa) or (len(sa) == 2 and _is_name(sa[0], self.ctx.name) and _is_name(sa[1], 'self'))
            if not ok:
                raise self.ctx.err(s, 'expected super().write(ostream, ...): %s' % _dump(s))
            self.trailer = 2
            return
        if self.trailer == 2:
            c = s.value if isinstance(s, ast.Expr) else None
            ok = isinstance(c, ast.Call) and isinstance(c.func, ast.Attribute) and c.func.attr == 'write' \
                and _is_name(c.func.value, self.ostream) and len(c.args) == 1 \
                and isinstance(c.args[0], ast.Attribute) and c.args[0].attr == 'buffer' and _is_name(c.args[0].value, self.buf)
            if not ok:
                raise self.ctx.err(s, 'expected ostream.write(<buf>.buffer): %s' % _dump(s))
            self.trailer = 3
            return
        raise self.ctx.err(s, 'statement after the body was emitted: %s' % _dump(s))


# ------------------------------------------------------------------ per class
def method_args(ctx, fdef):
    a = fdef.args
    names = [x.arg for x in a.args]
    if len(names) != 3 or names[0] != 'self' or names[2] != 'kmip_version' or a.vararg or a.kwarg or a.kwonlyargs:
        raise ctx.err(fdef, '%s has an unexpected signature %s' % (fdef.name, names))
    return names[1]


def setter_kinds(ctx, kinds, field):
    """What the public property setter of `field` constructs (new-style classes): the set of (tag, kind) of every
    `self._field = <Ctor>(..., value=value, ...)` in the setter that can be evaluated with value=None."""
    import textwrap
    p = inspect.getattr_static(ctx.cls, field, None)
    if not isinstance(p, property) or p.fset is None:
        return None
    try:
        tree = ast.parse(textwrap.dedent(inspect.getsource(p.fset)))
    except Exception:
        return None
    out = set()
    for n in ast.walk(tree):
        if isinstance(n, ast.Assign) and len(n.targets) == 1 and _self_attr(n.targets[0]) == '_' + field \
                and isinstance(n.value, ast.Call):
            if any(_is_name(x, 'self') for x in ast.walk(n.value)):
                continue
            try:
                code = compile(ast.fix_missing_locations(ast.Expression(n.value)), ctx.file, 'eval')
                obj = eval(code, dict(ctx.mod.__dict__, value=None))
                out.add(kinds.classify(ctx, n.value, obj))
            except Exception:
                continue
    return out


def _single_raise(body):
    return len(body) == 1 and isinstance(body[0], ast.Raise)


def _guard_presence(test, side):
    """`not <presence test>` / `<x> is None`  ->  the positive presence test, or None.
    reader: presence test = self.is_tag_next(T, buf); writer: self._x | self._x is not None"""
    if isinstance(test, ast.UnaryOp) and isinstance(test.op, ast.Not):
        t = test.operand
        if side == 'read':
            if isinstance(t, ast.Call) and _self_attr(t.func) == 'is_tag_next':
                return t
            return None
        if _self_attr(t):
            return t
        if isinstance(t, ast.Compare) and len(t.ops) == 1 and isinstance(t.ops[0], ast.IsNot) and _self_attr(t.left) \
                and isinstance(t.comparators[0], ast.Constant) and t.comparators[0].value is None:
            return t
        return None
    if side == 'write' and isinstance(test, ast.Compare) and len(test.ops) == 1 and isinstance(test.ops[0], ast.Is) \
            and _self_attr(test.left) and isinstance(test.comparators[0], ast.Constant) and test.comparators[0].value is None:
        return ast.copy_location(ast.Compare(left=test.left, ops=[ast.IsNot()], comparators=[ast.Constant(value=None)]), test)
    return None


def normalise_guard_clauses(stmts, side):
    """Guard clauses to the nested normal form the walkers know (behaviour preserving):

        if not P: raise ...          if P:
        A                     ==>        A
        [B]                              [B]
                                     else:
                                         raise ...

    reader: P = self.is_tag_next(T, buf) and A [B [C]] = construct; read [; self.f = local]; writer: P = self._x |
    self._x is not None (also written `self._x is None` in the guard) and A = the single write / loop over that attribute.
    Anything that does not fit exactly is left alone (and then fails closed in the walker)."""
    out, i = [], 0
    stmts = list(stmts)
    while i < len(stmts):
        s = stmts[i]
        for attr in ('body', 'orelse'):
            if isinstance(s, (ast.If, ast.For, ast.While)) and getattr(s, attr, None):
                setattr(s, attr, normalise_guard_clauses(getattr(s, attr), side))
        p = _guard_presence(s.test, side) if isinstance(s, ast.If) and not s.orelse and _single_raise(s.body) else None
        unit = None
        if p is not None:
            rest = stmts[i + 1:]
            if side == 'read':
                # construct; read [; self.f = local]
                if len(rest) >= 2 and isinstance(rest[0], ast.Assign) and isinstance(rest[0].value, ast.Call) \
                        and isinstance(rest[1], ast.Expr) and isinstance(rest[1].value, ast.Call) \
                        and isinstance(rest[1].value.func, ast.Attribute) and rest[1].value.func.attr == 'read' \
                        and ast.dump(rest[1].value.func.value) == ast.dump(rest[0].targets[0]).replace('Store()', 'Load()'):
                    n = 2
                    if len(rest) >= 3 and isinstance(rest[0].targets[0], ast.Name) and isinstance(rest[2], ast.Assign) \
                            and _is_name(rest[2].value, rest[0].targets[0].id) and _self_attr(rest[2].targets[0]):
                        n = 3
                    unit = rest[:n]
            else:
                tested = p.left if isinstance(p, ast.Compare) else p
                if rest:
                    a = rest[0]
                    tgt = None
                    if isinstance(a, ast.Expr) and isinstance(a.value, ast.Call) and isinstance(a.value.func, ast.Attribute) \
                            and a.value.func.attr == 'write':
                        tgt = a.value.func.value
                    elif isinstance(a, ast.For):
                        tgt = a.iter
                    if tgt is not None and _self_attr(tgt) and _self_attr(tgt).lstrip('_') == _self_attr(tested).lstrip('_'):
                        unit = rest[:1]
        if unit:
            new = ast.copy_location(ast.If(test=p, body=list(unit), orelse=list(s.body)), s)
            out.append(ast.fix_missing_locations(new))
            i += 1 + len(unit)
            continue
        out.append(s)
        i += 1
    return out


def translate_class(ctx, kinds):
    fdefs = {f.name: f for f in ctx.cdef.body if isinstance(f, ast.FunctionDef) and f.name in ('read', 'write')}
    rdef, wdef = fdefs['read'], fdefs['write']
    for f in (rdef, wdef):
        if f.decorator_list:
            raise ctx.err(f, 'decorated %s' % f.name)
    rdef.body = normalise_guard_clauses(rdef.body, 'read')
    wdef.body = normalise_guard_clauses(wdef.body, 'write')
    r = ReadWalker(ctx, kinds)
    r.instream = method_args(ctx, rdef)
    r.walk(rdef.body, (LO_MIN, HI_MAX), top=True)
    if not r.header:
        raise ctx.err(rdef, 'read() never reads the header')
    if not r.substream:
        # whole messages: items are decoded from the enclosing stream, the length field is not used (Schema.v v3: c_substream := false)
        if r.oversize or any(it['mult'] not in ('Req', 'Counted') for it in r.items):
            raise ctx.err(rdef, 'read() does not cut a sub-stream but peeks at tags / checks is_oversized')
        r.flags.add('v3')
    if r.pending:
        raise ctx.err(rdef, 'item constructed but never read: %s' % sorted(r.pending))
    for it in r.items:
        if it['field'].startswith('<local:'):
            raise ctx.err(rdef, 'list %s filled by read() is never stored in self' % it['field'])
    w = WriteWalker(ctx)
    w.ostream = method_args(ctx, wdef)
    w.walk(wdef.body, (LO_MIN, HI_MAX), top=True)
    for k, it in enumerate(r.items):
        if it['kind'][0] == 'struct' and it['kind'][1] in kinds.stubs:
            if k != len(r.items) - 1 or not r.oversize or it['mult'] not in ('Req', 'Opt'):
                raise ctx.err(rdef, 'item %s is a structure class without read/write of its own and is not the last item of a structure that checks is_oversized' % it['field'])
    if r.minver != w.minver:
        raise ctx.err(wdef, 'read() refuses versions below %s, write() below %s' % (r.minver, w.minver))
    minver = r.minver
    if minver is not None:
        for it in r.items + w.items:
            it['lo'] = max(it['lo'], minver)
    # the public setter (constructor path) must build the same item the reader decodes
    for it in r.items:
        sk = setter_kinds(ctx, kinds, it['field'])
        if sk:
            bad = [x for x in sk if x != (it['tag'], it['kind'])]
            if bad:
                raise Untranslatable(ctx.file, it['line'], '%s: read() decodes %s as tag %#x %s but its setter constructs tag %#x %s' % (
                    ctx.name, it['field'], it['tag'], '/'.join(it['kind']), bad[0][0], '/'.join(bad[0][1])))
            it['setter_checked'] = True
    # associate written fields with what the reader constructs for the same attribute
    by_field = {}
    for it in r.items:
        by_field.setdefault(it['field'], []).append(it)
    wr_items = []
    for it in w.items:
        cands = by_field.get(it['field'])
        if not cands:
            raise Untranslatable(ctx.file, it['line'], '%s: write() emits self.%s which read() never decodes' % (ctx.name, it['field']))
        sigs = {(c['tag'], c['kind']) for c in cands}
        if len(sigs) != 1:
            # the same attribute decoded as different items under different versions: pick by guard overlap
            m = [c for c in cands if c['lo'] < it['hi'] and it['lo'] < c['hi']]
            sigs = {(c['tag'], c['kind']) for c in m}
            if len(sigs) != 1:
                raise Untranslatable(ctx.file, it['line'], '%s: attribute %s is decoded as several different items' % (ctx.name, it['field']))
        tag, kind = next(iter(sigs))
        if kind[0] == 'struct' and not it['has_v']:
            raise Untranslatable(ctx.file, it['line'], '%s: nested structure %s written without kmip_version' % (ctx.name, it['field']))
        wi = {'field': it['field'], 'tag': tag, 'kind': kind, 'lo': it['lo'], 'hi': it['hi'],
              'mult': it['mult'], 'test': it['test'], 'line': it['line']}
        if any(c.get('converted') and (c['tag'], c['kind']) == (tag, kind) and c['lo'] < it['hi'] and it['lo'] < c['hi'] for c in cands):
            wi['converted'] = True
        cnt = [c['counted'] for c in cands if c.get('counted')]
        if cnt:
            if it['mult'] != 'Many':
                raise Untranslatable(ctx.file, it['line'], '%s: the counted item %s is not written by a plain loop' % (ctx.name, it['field']))
            wi['mult'] = 'Counted'
            c0 = dict(cnt[0])
            pos = [k for k, w0 in enumerate(w.items) if w0['field'] == r.items[c0['ix']]['field']]
            if len(pos) != 1:
                raise Untranslatable(ctx.file, it['line'], '%s: the structure holding the count is not written exactly once' % ctx.name)
            c0['ix'] = pos[0]
            wi['counted'] = c0
        bys = [c['by'] for c in cands if c.get('by')]
        if bys and bys[0].get('src') == 'next_type':
            wi['by'] = dict(bys[0])
        elif bys:
            # the writer emits whatever object the attribute holds: its dispatch table is the reader's, its key index is
            # the position, in WRITER order, of the key attribute
            by = dict(bys[0])
            pos = [k for k, w0 in enumerate(w.items) if w0['field'] == by['key_field']]
            if len(pos) != 1:
                raise Untranslatable(ctx.file, it['line'], '%s: the key %s of the dispatched item %s is not written exactly once' % (ctx.name, by['key_field'], it['field']))
            by['ix'] = pos[0]
            wi['by'] = by
        for kf in w.key_required.get(it['field'], ()):
            if not bys or bys[0]['key_field'] != kf:
                raise Untranslatable(ctx.file, it['line'], '%s: write() refuses %s when %s is absent, which is not its dispatch key' % (ctx.name, it['field'], kf))
        wr_items.append(wi)
    post_rd = resolve_posts(ctx, rdef, r.items, r.posts, minver)
    post_wr = resolve_posts(ctx, wdef, wr_items, w.posts, minver)
    if r.posts or w.posts:
        r.flags.add('post')
    return {'name': ctx.name, 'module': ctx.mod.__name__, 'file': ctx.file, 'post_rd': post_rd, 'post_wr': post_wr,
            'rd': r.items, 'wr': wr_items, 'oversize': r.oversize, 'minver': minver, 'rebind': r.rebind,
            'rebind_nested': r.rebind_nested, 'substream': r.substream,
            'flags': sorted(r.flags | w.flags),
            'read_line': rdef.lineno, 'write_line': wdef.lineno}


# ------------------------------------------------------------------ whole repository
def module_names(repo):
    names = list(MODULES)
    pdir = Path(repo) / 'kmip' / 'core' / 'messages' / 'payloads'
    for p in sorted(pdir.glob('*.py')):
        if p.stem != '__init__':
            names.append('kmip.core.messages.payloads.' + p.stem)
    return names


def schema_v3():
    """Codec/Schema.v provides c_substream, Counted and ByNextType (the generator follows the interpreter it is compiled against)"""
    p = HERE.parent / 'coq' / 'theories' / 'Codec' / 'Schema.v'
    try:
        t = p.read_text()
    except Exception:
        return False
    return 'c_substream' in t and 'Counted' in t and 'ByNextType' in t


def load_handmodelled():
    out = {}
    p = HERE / 'HANDMODELLED.txt'
    if p.exists():
        for line in p.read_text().splitlines():
            line = line.strip()
            if not line or line.startswith('#'):
                continue
            name, _, reason = line.partition(' ')
            out[name] = reason.strip()
    return out


def import_from(repo, name):
    repo = str(Path(repo).resolve())
    if sys.path[0] != repo:
        sys.path.insert(0, repo)
    m = importlib.import_module(name)
    f = getattr(m, '__file__', '') or ''
    if not str(Path(f).resolve()).startswith(repo + '/'):
        raise RuntimeError('module %s was imported from %s, not from %s' % (name, f, repo))
    return m


def default_tag(cls):
    """The tag an instance encodes itself with by default (None when it cannot be constructed without arguments)."""
    try:
        o = cls()
        return o.tag.value
    except Exception:
        return None


def translate(repo):
    """-> dict(classes=[...], excluded={name: reason}, errors={name: message}, ...) ; raises on unlisted errors"""
    repo = Path(repo)
    for base in ('kmip.core.enums', 'kmip.core.primitives'):
        import_from(repo, base)
    found = []
    for mn in module_names(repo):
        mod = import_from(repo, mn)
        src = Path(mod.__file__).read_text()
        tree = ast.parse(src)
        rel = str(Path(mod.__file__).resolve().relative_to(repo.resolve()))
        for node in tree.body:
            if isinstance(node, ast.ClassDef):
                cls = mod.__dict__.get(node.name)
                if not inspect.isclass(cls) or cls.__module__ != mn:
                    continue
                own = [f.name for f in node.body if isinstance(f, ast.FunctionDef) and f.name in ('read', 'write')]
                if len(own) == 2:
                    found.append(ClassCtx(mod, cls, node, rel))
                elif own:
                    raise Untranslatable(rel, node.lineno, 'class %s defines %s but not its counterpart' % (node.name, own[0]))
    names = [c.name for c in found]
    if len(set(names)) != len(names):
        raise RuntimeError('duplicate class names among translated modules: %r' % sorted(n for n in names if names.count(n) > 1))
    classes = {c.name: c.cls for c in found}
    kinds = Kinds(classes)
    hand = load_handmodelled()
    ok, errors = {}, {}
    for c in found:
        try:
            ok[c.name] = translate_class(c, kinds)
        except Untranslatable as e:
            errors[c.name] = str(e)
    v3 = schema_v3()
    unlisted = {n: e for n, e in errors.items() if n not in hand}
    listed_but_ok = sorted(n for n in ok if n in hand)
    stale = sorted(n for n in hand if n not in classes)
    # exclusion closure: listed classes and every class that contains one
    excluded = {n: 'hand-modelled: ' + hand[n] for n in hand if n in classes}
    for n, e in unlisted.items():
        excluded[n] = 'UNTRANSLATABLE: ' + e
    v4 = v3 and 'KTagged' in (HERE.parent / 'coq' / 'theories' / 'Codec' / 'Schema.v').read_text()
    for n, c in ok.items():
        if 'v4' in c['flags'] and not v4 and n not in excluded:
            excluded[n] = 'needs Schema.v v4 (KTagged any-attribute items), not provided by the interpreter this run compiles against'
    for n, c in ok.items():
        if 'v3' in c['flags'] and not v3 and n not in excluded:
            excluded[n] = 'needs Schema.v v3 (c_substream / Counted / ByNextType), not provided by the interpreter this run compiles against'
    # a counted item names the Integer item of the header class that holds the count: resolve its tag
    for n, c in ok.items():
        for it in c['rd'] + c['wr']:
            cn = it.get('counted')
            if cn and 'tag' not in cn:
                hc = ok.get(cn['cls'])
                hit = [h for h in (hc['rd'] if hc else []) if h['field'] == cn['count_field']]
                if len(hit) != 1 or hit[0]['kind'] != ('prim', 'PInt') or hit[0]['mult'] != 'Req':
                    excluded.setdefault(n, 'counted loop: %s.%s is not a required Integer item of a translated class' % (cn['cls'], cn['count_field']))
                else:
                    cn['tag'] = hit[0]['tag']
    changed = True
    while changed:
        changed = False
        for tb in kinds.tables.values():
            keep = [r for r in tb['rows'] if not (r[1][0] == 'struct' and r[1][1] in excluded)]
            if len(keep) != len(tb['rows']):
                for r in tb['rows']:
                    if r not in keep:
                        tb['dropped'][kinds.enums.Tags(r[0]).name] = 'class %s is outside the translator' % r[1][1]
                tb['rows'] = keep
                changed = True
        for n, c in ok.items():
            if n in excluded:
                continue
            for it in c['rd'] + c['wr']:
                if it.get('by'):
                    keep = [row for row in it['by']['table'] if not (row[2][0] == 'struct' and row[2][1] in excluded)]
                    if len(keep) != len(it['by']['table']):
                        for row in it['by']['table']:
                            if row not in keep:
                                it['by']['dropped'][str(row[0][1])] = 'class %s is outside the translator' % row[2][1]
                        it['by']['table'] = keep
                        changed = True
                        if keep:
                            it['tag'], it['kind'] = keep[0][1], tuple(keep[0][2])
                    if not keep:
                        excluded[n] = 'every alternative of the dispatched item %s is outside the translator' % it['field']
                        changed = True
                        break
                    continue
                if it['kind'][0] == 'struct' and it['kind'][1] in excluded:
                    excluded[n] = 'contains ' + it['kind'][1]
                    changed = True
                    break
                if it.get('counted') and it['counted']['cls'] in excluded:
                    excluded[n] = 'counts by ' + it['counted']['cls']
                    changed = True
                    break
    included = [ok[n] for n in names if n in ok and n not in excluded]
    # Containers that translate but hold a class outside the translator: no model for them, but their schema, with the
    # items of the outside classes removed (possible when those items are optional / repeated), still steers the
    # generator of the direct oracle (nested version-dependent structures inside a container).
    import copy as _copy
    oracle_only = []
    for n in names:
        if n in ok and n in excluded and n not in hand and n not in unlisted:
            c = _copy.deepcopy(ok[n])
            keep = {}
            usable = True
            for side in ('rd', 'wr'):
                keep[side] = []
                for it in c[side]:
                    outside = (it['kind'][0] == 'struct' and it['kind'][1] in excluded) or \
                              (it.get('counted') and it['counted']['cls'] in excluded)
                    if outside and it['mult'] not in ('Opt', 'Many'):
                        usable = False
                    if not outside:
                        keep[side].append(it)
            if usable and not any(it.get('by') or it.get('counted') for it in keep['wr']):
                c['rd'], c['wr'] = keep['rd'], keep['wr']
                c['post_rd'], c['post_wr'] = [], []
                c['default_tag'] = default_tag(classes[n])
                c['flags'] = sorted(set(c['flags']) | {'oracle_only'})
                oracle_only.append(c)
    used_stubs = sorted({it['kind'][1] for c in included for it in c['rd'] + c['wr'] if it['kind'][0] == 'struct' and it['kind'][1] in kinds.stubs})
    for sn in used_stubs:
        cls = kinds.stubs[sn]
        classes[sn] = cls
        included.append({'name': sn, 'module': cls.__module__, 'file': str(Path(inspect.getsourcefile(cls)).resolve().relative_to(repo.resolve())),
                         'rd': [], 'wr': [], 'oversize': True, 'minver': None, 'flags': ['stub'], 'read_line': 0, 'write_line': 0})
    inc_names = {c['name'] for c in included}
    # listed although translatable: emitted beside E (not in it) when everything they refer to is in E
    listed = [ok[n] for n in names if n in ok and n in hand
              and all(it['kind'][0] != 'struct' or it['kind'][1] in inc_names for it in ok[n]['rd'] + ok[n]['wr'])]
    for c in included + listed:
        c['default_tag'] = default_tag(classes[c['name']])
    return {'v3': v3, 'v4': v4, 'tables': kinds.tables if v4 else {}, 'oracle_only': oracle_only, 'classes': included, 'listed': listed, 'excluded': excluded, 'errors': errors, 'unlisted_errors': unlisted,
            'listed_but_translatable': listed_but_ok, 'stale_list_entries': stale,
            'all_class_names': names, 'hand': hand}


# ------------------------------------------------------------------ rendering
def coq_kind(k):
    return {'prim': 'KPrim %s', 'enum': 'KEnum "%s"', 'struct': 'KStruct "%s"', 'tagged': 'KTagged "%s"'}[k[0]] % k[1]


def coq_pval(p):
    """dispatch key: ('text', str) | ('enum', int)"""
    if p[0] == 'text':
        return 'VText [%s]' % ';'.join(str(b) for b in p[1].encode('utf-8'))
    if p[0] == 'enum':
        return 'VEnum %d' % p[1]
    if p[0] == 'int':
        return 'VInt %d' % p[1]
    raise KeyError(p[0])


def coq_by(by, v3=False):
    if not by:
        return 'None'
    if v3:
        src = 'ByNextType' if by.get('src') == 'next_type' else 'ByField %d' % by['ix']
        rows = ';\n                '.join('(%s, (%d, %s))' % (coq_pval(tuple(k)), tag, coq_kind(tuple(kind))) for k, tag, kind in by['table'])
        return '(Some {| by_src := %s; by_skip_if_absent := %s; by_table := [\n                %s] |})' % (
            src, 'true' if by['skip_if_absent'] else 'false', rows)
    rows = ';\n                '.join('(%s, (%d, %s))' % (coq_pval(tuple(k)), tag, coq_kind(tuple(kind))) for k, tag, kind in by['table'])
    return '(Some {| by_ix := %d; by_skip_if_absent := %s; by_table := [\n                %s] |})' % (
        by['ix'], 'true' if by['skip_if_absent'] else 'false', rows)


def coq_item(it, v3=False):
    mult = it['mult']
    if mult == 'Counted':
        mult = '(Counted %d "%s" %d)' % (it['counted']['ix'], it['counted']['cls'], it['counted']['tag'])
    return '{| i_tag := %d; i_kind := %s; i_lo := %d; i_hi := %d; i_mult := %s; i_by := %s |}' % (
        it['tag'], coq_kind(it['kind']), it['lo'], it['hi'], mult, coq_by(it.get('by'), v3))


def used_enum_names(t):
    names = set()
    for c in t['classes']:
        for it in c['rd'] + c['wr']:
            if it['kind'][0] == 'enum':
                names.add(it['kind'][1])
            for row in (it.get('by') or {}).get('table', []):
                if row[2][0] == 'enum':
                    names.add(row[2][1])
    for tb in (t.get('tables') or {}).values():
        names.add('Tags')
        for row in tb['rows']:
            if row[1][0] == 'enum':
                names.add(row[1][1])
    return sorted(names)


def render_coq(t):
    used_enums = used_enum_names(t)
    out = ['(* GENERATED from the read()/write() methods of kmip/core by translate/gen_schemas.py - do not edit.',
           '   %d classes under T; %d classes excluded (hand-modelled or containing a hand-modelled class). *)' % (
               len(t['classes']), len(t['excluded'])),
           'From PK Require Import Codec.Schema.', 'From PKGen Require Import Enums.',
           'Import ListNotations.', 'Open Scope Z_scope.', 'Open Scope string_scope.', '']
    for c in t['classes']:
        out.append('(* %s  %s: read l.%d, write l.%d *)' % (c['name'], c['file'], c['read_line'], c['write_line']))
        out.append('Definition C_%s : cls := {|' % c['name'])
        out.append('  c_name := "%s";' % c['name'])
        v3 = t.get('v3', False)
        out.append('  c_rd := [' + ';\n           '.join(coq_item(i, v3) for i in c['rd']) + '];')
        out.append('  c_wr := [' + ';\n           '.join(coq_item(i, v3) for i in c['wr']) + '];')
        if v3:
            out.append('  c_oversize_check := %s;' % ('true' if c['oversize'] else 'false'))
            if 'c_minver' in SCHEMA_V_TEXT:
                out.append('  c_substream := %s;' % ('true' if c.get('substream', True) else 'false'))
                if 'c_post_rd' in SCHEMA_V_TEXT:
                    out.append('  c_minver := %d;' % (c['minver'] if c.get('minver') is not None else 0))
                    out.append('  c_post_rd := %s;' % coq_posts(c.get('post_rd', [])))
                    out.append('  c_post_wr := %s |}.' % coq_posts(c.get('post_wr', [])))
                else:
                    out.append('  c_minver := %d |}.' % (c['minver'] if c.get('minver') is not None else 0))
            else:
                out.append('  c_substream := %s |}.' % ('true' if c.get('substream', True) else 'false'))
        else:
            out.append('  c_oversize_check := %s |}.' % ('true' if c['oversize'] else 'false'))
        out.append('')
    out.append('Definition E : env := {|')
    out.append('  e_classes := [' + ';\n    '.join('C_' + c['name'] for c in t['classes']) + '];')
    # Schema.v v4: the environment carries tag tables for any-attribute items (none emitted yet)
    v4 = 'e_tables' in (Path(__file__).resolve().parent.parent / 'coq' / 'theories' / 'Codec' / 'Schema.v').read_text()
    tables = t.get('tables') or {}
    tbl = ';\n    '.join('("%s", [\n      %s])' % (n, ';\n      '.join('(%d, %s, %d, %d)' % (r[0], coq_kind(tuple(r[1])), r[2], r[3]) for r in tb['rows']))
                         for n, tb in sorted(tables.items()))
    out.append('  e_enums := [' + ';\n    '.join('("%s", EV_%s)' % (e, e) for e in used_enums) + ']'
               + (';\n  e_tables := [' + tbl + ']' if v4 else '') + ' |}.')
    out.append('')
    out.append('(* the tag each class encodes itself with when constructed without a tag argument *)')
    out.append('Definition class_tags : list (string * Z) := [')
    out.append(';\n'.join('  ("%s", %d)' % (c['name'], c['default_tag']) for c in t['classes'] if c['default_tag'] is not None))
    out.append('].')
    out.append('')
    out.append('(* class-level refusal `if kmip_version < V: raise VersionNotSupported` at the top of read() AND write():')
    out.append('   the items of such a class carry i_lo >= V; below V the code refuses everything (checked by the harness) *)')
    out.append('Definition class_minver : list (string * Z) := [')
    out.append(';\n'.join('  ("%s", %d)' % (c['name'], c['minver']) for c in t['classes'] if c['minver'] is not None))
    out.append('].')
    out.append('')
    out.append('Definition excluded_classes : list string := [')
    out.append(';\n'.join('  "%s"' % n for n in sorted(t['excluded'])))
    out.append('].')
    return '\n'.join(out) + '\n'


def render_json(t):
    enums = importlib.import_module('kmip.core.enums')
    used_enums = used_enum_names(dict(t, classes=t['classes'] + t.get('oracle_only', [])))      # the generator also needs the enums of the oracle-only containers
    def cj(c):
        return {'name': c['name'], 'module': c['module'], 'file': c['file'], 'default_tag': c['default_tag'],
                'oversize': c['oversize'], 'minver': c['minver'], 'rebind': c.get('rebind'), 'rebind_nested': c.get('rebind_nested'),
                'substream': c.get('substream', True), 'post_rd': c.get('post_rd', []), 'post_wr': c.get('post_wr', []),
                'flags': c['flags'], 'read_line': c['read_line'],
                'write_line': c['write_line'],
                'rd': [{k: (list(v) if k == 'kind' else v) for k, v in i.items()} for i in c['rd']],
                'wr': [{k: (list(v) if k == 'kind' else v) for k, v in i.items()} for i in c['wr']]}
    doc = {
        'classes': [cj(c) for c in t['classes']],
        'schema_v3': t.get('v3', False), 'schema_v4': t.get('v4', False),
        'tables': t.get('tables') or {},
        'enums': {e: sorted({m.value for m in getattr(enums, e)}) for e in used_enums},
        'excluded': t['excluded'],
        'listed_but_translatable': t['listed_but_translatable'],
        'oracle_only_classes': [cj(c) for c in t.get('oracle_only', [])],
        'all_class_names': t['all_class_names'],
    }
    return json.dumps(doc, indent=1, sort_keys=True) + '\n'


def generate(repo):
    t = translate(repo)
    if t['unlisted_errors']:
        raise Untranslatable('translate/gen_schemas.py', 0, 'untranslatable constructs in classes not listed in HANDMODELLED.txt: ' +
                             ' | '.join('%s' % e for e in sorted(t['unlisted_errors'].values())))
    if t['stale_list_entries']:
        raise RuntimeError('HANDMODELLED.txt names classes that do not exist: %r' % t['stale_list_entries'])
    return {'Schemas.v': render_coq(t), 'schemas.json': render_json(t)}


if __name__ == '__main__':
    repo = sys.argv[1] if len(sys.argv) > 1 else '/repo'
    t = translate(repo)
    print('translated:', len(t['classes']), 'excluded:', len(t['excluded']))
    for n, e in sorted(t['errors'].items()):
        print('ERR', n, '::', e)
    for n, e in sorted(t['excluded'].items()):
        if n not in t['errors']:
            print('EXC', n, '::', e)
    print('listed but translatable:', t['listed_but_translatable'])
