"""Tie T for C08: the order of `raise`, mutation and commit inside every operation handler.

Reads kmip/services/server/engine.py with `ast` and writes coq/gen/BatchOrder.v: for every method of KmipEngine
a term of type `code` (Batch/Order.v) that keeps the control structure (sequence, if, loop, return) and, of the
statements, only what matters for "a failing item leaves no trace":

    Raise label      an explicit `raise` (label = function name + start of its message)
    Mut              a loaded managed object (or an alias into it) is changed, an object is added to / deleted from the
                     session, a bulk delete is issued
    MutParam         the same on a parameter of the method (what it means depends on what the caller passes)
    Commit           self._data_session.commit()
    Rollback         self._data_session.rollback()
    SetPh            self._id_placeholder = ...
    Call f k         a call of another KmipEngine method; k = kind of managed object passed (loaded / transient / param / none)
    CallOnce f k     the same when the call passes a one-entry dict / list literal over which all top-level loops of f iterate

A variable is *loaded* when it comes from _get_object_with_access_controls / a session query, *transient* when it
is constructed in the method (objects.X(...), factory.convert(...)); aliases (`a = managed_object.names`) inherit.
Mutations of transient objects are not events (they never reach the session unless added).

Fail closed: an unknown statement type, an attribute assignment whose root is neither `self` (known fields) nor a
tracked variable, or a `raise` without recognisable label makes the generator raise.
"""
import ast
from pathlib import Path

SELF_FIELDS_OK = {'_client_identity', '_protocol_version', '_attribute_policy', 'is_asynchronous', '_data_session',
                  '_logger', '_id_placeholder'}
MUTATING_METHODS = {'append', 'extend', 'pop', 'remove', 'insert', 'clear', 'add', 'discard', 'update', 'sort', 'reverse'}
LOADERS = {'_get_object_with_access_controls', '_list_objects_with_access_controls'}
TRANSIENT_CALL_ROOTS = {'objects', 'managed_object_factory', 'factory'}


def q(s):
    s = ''.join(ch if 32 <= ord(ch) < 127 and ch != '"' else '_' for ch in s)
    return '"' + s + '"'


class Fn:
    def __init__(self, name, node, methods, defs):
        self.name, self.node, self.methods, self.defs = name, node, methods, defs
        self.kind = {}                                   # variable -> 'loaded' | 'transient' | 'param'
        for a in node.args.args[1:]:
            if a.arg == 'managed_object':
                self.kind[a.arg] = 'param'

    # ---- expressions
    def root(self, e):
        """Tracked variable an expression is rooted at (x, x.attr, x.attr[i], x.attr[i].b ...), else None."""
        while isinstance(e, (ast.Attribute, ast.Subscript)):
            e = e.value
        if isinstance(e, ast.Name) and e.id in self.kind:
            return e.id
        return None

    def is_self_attr(self, e, names=None):
        return (isinstance(e, ast.Attribute) and isinstance(e.value, ast.Name) and e.value.id == 'self' and
                (names is None or e.attr in names))

    def mut_of(self, var):
        k = self.kind[var]
        return {'loaded': ['Mut'], 'param': ['MutParam'], 'transient': []}[k]

    def session_chain(self, e):
        """Is this call chain rooted at self._data_session ?"""
        while True:
            if isinstance(e, ast.Call):
                e = e.func
            elif isinstance(e, ast.Attribute):
                if self.is_self_attr(e, {'_data_session'}):
                    return True
                e = e.value
            else:
                return False

    def events_expr(self, e):
        """Events of evaluating an expression, inner calls first."""
        out = []
        if e is None:
            return out
        for node in self.walk_calls(e):
            f = node.func
            if isinstance(f, ast.Attribute) and self.is_self_attr(f.value, {'_data_session'}):
                if f.attr == 'commit':
                    out.append('Commit')
                elif f.attr in ('add', 'delete', 'merge', 'add_all'):
                    out.append('Mut')
                elif f.attr == 'rollback':
                    out.append('Rollback')
                elif f.attr in ('query', 'flush', 'execute', 'close', 'expunge', 'refresh'):
                    if f.attr != 'query':
                        raise ValueError('%s: session.%s is not classified' % (self.name, f.attr))
                else:
                    raise ValueError('%s: session.%s is not classified' % (self.name, f.attr))
            elif isinstance(f, ast.Attribute) and f.attr in ('delete', 'update') and self.session_chain(f.value):
                out.append('Mut')                         # bulk delete / update through a query
            elif isinstance(f, ast.Attribute) and self.is_self_attr(f) and f.attr in self.methods:
                kinds = [self.kind[self.root(a)] for a in node.args if self.root(a) is not None]
                k = kinds[0] if kinds else 'none'
                out.append('(%s %s K%s)' % ('CallOnce' if self.loops_once(f.attr, node) else 'Call', q(f.attr), k))
            elif isinstance(f, ast.Name) and f.id == 'setattr':
                r = self.root(node.args[0])
                if r is None:
                    raise ValueError('%s: setattr on an untracked object' % self.name)
                out += self.mut_of(r)
            elif isinstance(f, ast.Attribute) and f.attr in MUTATING_METHODS:
                r = self.root(f.value)
                if r is not None:
                    out += self.mut_of(r)
        return out

    def loops_once(self, callee, call):
        """The callee's top-level loops all iterate over a parameter that this call binds to a one-entry dict / list
        literal: each of them runs exactly once (CallOnce)."""
        fn = self.defs[callee]
        params = [a.arg for a in fn.args.args[1:]]
        single = [params[i] for i, a in enumerate(call.args)
                  if i < len(params) and isinstance(a, (ast.Dict, ast.List, ast.Tuple)) and
                  len(a.keys if isinstance(a, ast.Dict) else a.elts) == 1 and
                  not any(isinstance(x, ast.Starred) for x in (a.elts if not isinstance(a, ast.Dict) else [])) and
                  (not isinstance(a, ast.Dict) or a.keys[0] is not None)]
        loops = [st for st in fn.body if isinstance(st, (ast.For, ast.While))]
        if not single or not loops:
            return False
        for lp in loops:
            if not isinstance(lp, ast.For):
                return False
            names = {n.id for n in ast.walk(lp.iter) if isinstance(n, ast.Name)}
            if not (names & set(single)):
                return False
        for n in ast.walk(fn):                       # the parameter must not be rebound or grown inside the callee
            if isinstance(n, (ast.Assign, ast.AugAssign)):
                for t in (n.targets if isinstance(n, ast.Assign) else [n.target]):
                    if any(isinstance(x, ast.Name) and x.id in single for x in ast.walk(t)):
                        return False
            if isinstance(n, ast.Call) and isinstance(n.func, ast.Attribute) and isinstance(n.func.value, ast.Name) \
                    and n.func.value.id in single and n.func.attr in MUTATING_METHODS | {'setdefault', '__setitem__'}:
                return False
        return True

    def walk_calls(self, e):
        """ast.Call nodes in evaluation order (arguments before the call itself)."""
        res = []

        def go(n):
            for c in ast.iter_child_nodes(n):
                go(c)
            if isinstance(n, ast.Call):
                res.append(n)
        go(e)
        return res

    def bind(self, target, value):
        """Track what a simple variable now refers to."""
        if not isinstance(target, ast.Name):
            return
        v = value
        if isinstance(v, ast.Subscript) and isinstance(v.value, ast.Call):
            v = v.value
        if isinstance(v, ast.Call):
            f = v.func
            if isinstance(f, ast.Attribute) and self.is_self_attr(f) and f.attr in LOADERS:
                self.kind[target.id] = 'loaded'
                return
            if self.session_chain(v):
                self.kind[target.id] = 'loaded'
                return
            base = f
            while isinstance(base, ast.Attribute):
                base = base.value
            if isinstance(base, ast.Name) and base.id in TRANSIENT_CALL_ROOTS:
                self.kind[target.id] = 'transient'
                return
            if isinstance(f, ast.Attribute) and isinstance(base, ast.Name) and base.id == 'copy' and f.attr == 'deepcopy':
                self.kind[target.id] = 'transient'        # a copy, never added to the session
                return
            if isinstance(f, ast.Attribute) and self.is_self_attr(f) and f.attr in self.methods:
                if f.attr == '_build_core_object':
                    self.kind[target.id] = 'transient'    # a kmip.core secret built from the object's fields
                else:
                    self.kind.pop(target.id, None)        # result of another engine method: not tracked (fail closed on attribute assignment)
                return
            if isinstance(base, ast.Name) and base.id != 'self':
                self.kind[target.id] = 'transient'        # built by a library constructor / function: not an ORM instance of this session
                return
        r = self.root(value) if isinstance(value, (ast.Attribute, ast.Subscript, ast.Name)) else None
        if r is not None:
            self.kind[target.id] = self.kind[r]
        else:
            self.kind.pop(target.id, None)

    # ---- statements
    def label(self, node):
        if node.exc is None:
            return self.name + ': re-raise'
        if isinstance(node.exc, ast.Name):
            return self.name + ': re-raise ' + node.exc.id
        for n in ast.walk(node.exc):
            if isinstance(n, ast.Constant) and isinstance(n.value, str):
                return self.name + ': ' + n.value[:60]
        raise ValueError('%s: raise without a message at line %d' % (self.name, node.lineno))

    def assign_target_events(self, t):
        if isinstance(t, ast.Name):
            return []
        if isinstance(t, (ast.Tuple, ast.List)):
            out = []
            for x in t.elts:
                out += self.assign_target_events(x)
            return out
        if isinstance(t, (ast.Attribute, ast.Subscript)):
            base = t
            while isinstance(base, (ast.Attribute, ast.Subscript)):
                base = base.value
            if isinstance(base, ast.Name) and base.id == 'self':
                top = t
                while isinstance(top.value, (ast.Attribute, ast.Subscript)):
                    top = top.value
                if top.attr not in SELF_FIELDS_OK:
                    raise ValueError('%s: assignment to self.%s is not classified' % (self.name, top.attr))
                return ['SetPh'] if top.attr == '_id_placeholder' else []
            r = self.root(t)
            if r is not None:
                return self.mut_of(r)
            if isinstance(t, ast.Subscript) and isinstance(base, ast.Name):
                return []                                 # a local dict / list being filled
            raise ValueError('%s: line %d assigns to an attribute of an untracked object' % (self.name, t.lineno))
        raise ValueError('%s: unknown assignment target %s' % (self.name, type(t).__name__))

    def block(self, stmts):
        return 'Seq [' + '; '.join(x for s in stmts for x in self.stmt(s)) + ']'

    def stmt(self, s):
        if isinstance(s, ast.Expr):
            if isinstance(s.value, ast.Constant):
                return []
            return self.events_expr(s.value)
        if isinstance(s, ast.Assign):
            out = self.events_expr(s.value)
            for t in s.targets:
                out += self.assign_target_events(t)
                self.bind(t, s.value)
            return out
        if isinstance(s, ast.AugAssign):
            return self.events_expr(s.value) + self.assign_target_events(s.target)
        if isinstance(s, ast.Raise):
            return self.events_expr(s.exc) + ['(Raise %s)' % q(self.label(s))]
        if isinstance(s, ast.Return):
            return self.events_expr(s.value) + ['Ret']
        if isinstance(s, ast.If):
            saved = dict(self.kind)
            a = self.block(s.body)
            ka = self.kind
            self.kind = dict(saved)
            b = self.block(s.orelse)
            for k, v in ka.items():                       # a variable keeps a kind only if both branches agree
                if self.kind.get(k, v) != v:
                    raise ValueError('%s: variable %s is %s in one branch and %s in the other' % (self.name, k, v, self.kind.get(k)))
                self.kind.setdefault(k, v)
            return self.events_expr(s.test) + ['(If (%s) (%s))' % (a, b)]
        if isinstance(s, (ast.For, ast.While)):
            pre = self.events_expr(s.iter if isinstance(s, ast.For) else s.test)
            if isinstance(s, ast.For):
                # `for x in managed_object.names:` - the loop variable is a value, not an alias we could mutate through
                for n in ast.walk(s.target):
                    if isinstance(n, ast.Name):
                        r = self.root(s.iter)
                        if r is not None and not isinstance(s.iter, ast.Call):
                            self.kind[n.id] = self.kind[r]
                        else:
                            self.kind.pop(n.id, None)
            body = self.block(s.body + s.orelse)
            return pre + ['(Loop (%s))' % body]
        if isinstance(s, ast.Try):
            # the body may stop anywhere; a handler then runs: body, then optionally each handler
            out = ['(If (%s) (Seq []))' % self.block(s.body)] if False else [self.block(s.body)]
            for h in s.handlers:
                out.append('(If (%s) (Seq []))' % self.block(h.body))
            if s.orelse:
                out.append(self.block(s.orelse))
            if s.finalbody:
                out.append(self.block(s.finalbody))
            return out
        if isinstance(s, ast.With):
            out = []
            for i in s.items:
                out += self.events_expr(i.context_expr)
            return out + [self.block(s.body)]
        if isinstance(s, (ast.Pass, ast.Break, ast.Continue)):
            return []
        if isinstance(s, ast.Delete):
            out = []
            for t in s.targets:
                out += self.assign_target_events(t) if not isinstance(t, ast.Name) else []
            return out
        raise ValueError('%s: statement %s at line %d is not understood' % (self.name, type(s).__name__, s.lineno))


def generate(repo):
    src = (Path(repo) / 'kmip/services/server/engine.py').read_text()
    tree = ast.parse(src)
    cls = [n for n in tree.body if isinstance(n, ast.ClassDef) and n.name == 'KmipEngine']
    if len(cls) != 1:
        raise ValueError('class KmipEngine not found')
    fns = [n for n in cls[0].body if isinstance(n, ast.FunctionDef)]
    methods = {f.name for f in fns}
    defs = {f.name: f for f in fns}
    lines = ['(* GENERATED by translate/gen_batchorder.py from kmip/services/server/engine.py - do not edit *)',
             'From Coq Require Import String List.', 'From PK Require Import Batch.Order.', 'Import ListNotations.',
             'Open Scope string_scope.', '']
    names = []
    for f in fns:
        if f.name in ('__init__',) or any(isinstance(d, ast.Name) and d.id == 'property' for d in f.decorator_list):
            continue
        if f.name in ('_kmip_version_supported', '_synchronize'):
            continue                                       # decorators: their inner functions hold no store access
        body = Fn(f.name, f, methods, defs).block(f.body)
        lines.append('Definition code_%s : code := %s.' % (f.name, body))
        names.append(f.name)
    lines.append('')
    lines.append('Definition engine_methods : list (string * code) := [' +
                 '; '.join('(%s, code_%s)' % (q(n), n) for n in names) + '].')
    locked = sorted(f.name for f in fns if any(isinstance(d, ast.Name) and d.id == '_synchronize' for d in f.decorator_list))
    lines.append('Definition synchronized_methods : list string := [' + '; '.join(q(n) for n in locked) + '].')
    handlers = sorted(n for n in names if n.startswith('_process_') and n not in ('_process_batch', '_process_operation', '_process_template_attribute'))
    lines.append('Definition operation_handlers : list string := [' + '; '.join(q(n) for n in handlers) + '].')
    # the dispatcher must reach exactly these handlers
    disp = [f for f in fns if f.name == '_process_operation'][0]
    reached = sorted({n.func.attr for n in ast.walk(disp) if isinstance(n, ast.Call) and isinstance(n.func, ast.Attribute)
                      and n.func.attr.startswith('_process_')})
    if reached != handlers:
        raise ValueError('_process_operation dispatches to %r, the handlers found are %r' % (reached, handlers))
    return {'BatchOrder.v': '\n'.join(lines) + '\n'}


if __name__ == '__main__':
    import sys
    print(generate(Path(sys.argv[1] if len(sys.argv) > 1 else '/repo'))['BatchOrder.v'][:6000])
