"""Tie T for C03.

  kmip/core/policy.py `policies`            -> gen/DefaultPolicies.v   (the built-in operation policies)
  kmip/services/server/engine.py (ast pass) -> gen/HandlerAccessOps.v  (which choke point each handler calls, under
                                               which Operation constant, where the identifier comes from; the
                                               dispatch table; the two message formats of the choke point)

Fail closed: anything that is not one of the recognised shapes raises, which the
harness reports as a broken tie.
"""
import ast
import importlib
from pathlib import Path

HEADER = ['From Coq Require Import ZArith List String.',
          'From PK Require Import Policy.Policy Policy.AccessTypes.',
          'Import ListNotations.', 'Open Scope Z_scope.', 'Open Scope string_scope.', '']


class Unrecognised(Exception):
    pass


def cstr(s):
    for ch in s:
        if not (32 <= ord(ch) < 127):
            raise Unrecognised('non printable-ASCII text: %r' % s)
    return '"' + s.replace('"', '""') + '"'


# ------------------------------------------------------------------------- built-in policies
def gen_default_policies(repo):
    enums = importlib.import_module('kmip.core.enums')
    policy = importlib.import_module('kmip.core.policy')
    src = Path(policy.__file__).resolve()
    if Path(repo).resolve() not in src.parents:
        raise Unrecognised('kmip.core.policy imported from %s, not from %s' % (src, repo))
    perm = {enums.Policy.ALLOW_ALL: 'AllowAll', enums.Policy.ALLOW_OWNER: 'AllowOwner', enums.Policy.DISALLOW_ALL: 'DisallowAll'}

    def section(sec, where):
        if not isinstance(sec, dict):
            raise Unrecognised('%s: section is %r' % (where, type(sec)))
        rows = []
        for ot, ops in sec.items():
            if not isinstance(ot, enums.ObjectType) or not isinstance(ops, dict):
                raise Unrecognised('%s: object type key %r' % (where, ot))
            cells = []
            for op, p in ops.items():
                if not isinstance(op, enums.Operation) or p not in perm:
                    raise Unrecognised('%s/%s: entry %r: %r' % (where, ot, op, p))
                cells.append('(%d (* %s *), %s)' % (op.value, op.name, perm[p]))
            rows.append('    (%d (* %s *), [\n      %s])' % (ot.value, ot.name, ';\n      '.join(cells)))
        return '[\n' + ';\n'.join(rows) + ']'

    pols = policy.policies
    if not isinstance(pols, dict) or not pols:
        raise Unrecognised('policy.policies is %r' % type(pols))
    out = ['(* GENERATED from kmip/core/policy.py (`policies`) by translate/gen_policies.py - do not edit *)'] + HEADER
    names = []
    for name, b in pols.items():
        if not isinstance(name, str) or not isinstance(b, dict) or not set(b) <= {'preset', 'groups'}:
            raise Unrecognised('policy %r has shape %r' % (name, b if not isinstance(b, dict) else sorted(b)))
        ident = 'builtin_' + ''.join(c if c.isalnum() else '_' for c in name)
        pre = 'None'
        if 'preset' in b:
            out.append('Definition %s_preset : section := %s.' % (ident, section(b['preset'], name + '/preset')))
            pre = 'Some %s_preset' % ident
        grp = 'None'
        if 'groups' in b:
            if not isinstance(b['groups'], dict):
                raise Unrecognised('%s/groups is %r' % (name, type(b['groups'])))
            gs = []
            for k, (g, sec) in enumerate(b['groups'].items()):
                if not isinstance(g, str):
                    raise Unrecognised('%s/groups key %r' % (name, g))
                out.append('Definition %s_group_%d : section := %s.' % (ident, k, section(sec, name + '/groups/' + g)))
                gs.append('(%s, %s_group_%d)' % (cstr(g), ident, k))
            grp = 'Some [' + '; '.join(gs) + ']'
        out.append('Definition %s : bundle := {| preset := %s; groups := %s |}.' % (ident, pre, grp))
        out.append('')
        names.append((name, ident))
    out.append('Definition default_policies : policies := [' + '; '.join('(%s, %s)' % (cstr(n), i) for n, i in names) + '].')
    out.append('')
    out.append('Definition OT_ : list (string * Z) := [' + '; '.join('(%s, %d)' % (cstr(m.name), m.value) for m in enums.ObjectType) + '].')
    out.append('Definition OP_ : list (string * Z) := [' + '; '.join('(%s, %d)' % (cstr(m.name), m.value) for m in enums.Operation) + '].')
    return '\n'.join(out) + '\n'


# ------------------------------------------------------------------------- engine.py
def is_self_attr(node, name):
    return (isinstance(node, ast.Attribute) and node.attr == name and
            isinstance(node.value, ast.Name) and node.value.id == 'self')


def op_constant(node, enums):
    """enums.Operation.X -> (value, name)"""
    if (isinstance(node, ast.Attribute) and isinstance(node.value, ast.Attribute) and node.value.attr == 'Operation'
            and isinstance(node.value.value, ast.Name) and node.value.value.id == 'enums'):
        try:
            m = enums.Operation[node.attr]
        except KeyError:
            raise Unrecognised('unknown operation constant %s' % node.attr)
        return m.value, m.name
    raise Unrecognised('operation argument is not an enums.Operation constant: %s' % ast.unparse(node))


def strip_doc(body):
    if body and isinstance(body[0], ast.Expr) and isinstance(body[0].value, ast.Constant) and isinstance(body[0].value.value, str):
        return body[1:]
    return body


# ------------------------------------------------------------------------- canonical form of a choke-point function
# Only what takes part in the access path is compared.  Statements and sub-expressions that merely FORMAT text
# (logger calls; the arguments of an exception constructor that the expected shape marks IGNORED; throw-away locals
# read only there) are transparent, provided they are pure: constants, names, attribute reads, str.format/join/
# capitalize/split/..., list comprehensions over those, and calls of helper methods of the class that are themselves a
# single `return <pure formatting expression>` (e.g. KmipEngine._get_enum_string).  Local variable and parameter names
# are compared up to consistent renaming.  Everything else is compared node by node and fails closed.
PURE_STR_METHODS = {'format', 'join', 'capitalize', 'split', 'title', 'lower', 'upper', 'strip', 'replace'}


def pure_formatting(node, pure_helpers):
    """True when evaluating `node` can only read names/attributes and build text."""
    if isinstance(node, (ast.Constant, ast.Name)):
        return True
    if isinstance(node, ast.Attribute):
        return pure_formatting(node.value, pure_helpers)
    if isinstance(node, (ast.Tuple, ast.List)):
        return all(pure_formatting(e, pure_helpers) for e in node.elts)
    if isinstance(node, ast.Subscript):
        return pure_formatting(node.value, pure_helpers) and pure_formatting(node.slice, pure_helpers)
    if isinstance(node, ast.BinOp) and isinstance(node.op, (ast.Add, ast.Mod)):
        return pure_formatting(node.left, pure_helpers) and pure_formatting(node.right, pure_helpers)
    if isinstance(node, ast.JoinedStr):
        return all(pure_formatting(v, pure_helpers) for v in node.values)
    if isinstance(node, ast.FormattedValue):
        return pure_formatting(node.value, pure_helpers)
    if isinstance(node, (ast.ListComp, ast.GeneratorExp)):
        return (pure_formatting(node.elt, pure_helpers) and
                all(isinstance(g.target, ast.Name) and pure_formatting(g.iter, pure_helpers) and
                    all(pure_formatting(c, pure_helpers) for c in g.ifs) and not g.is_async for g in node.generators))
    if isinstance(node, ast.Call):
        if node.keywords and any(k.arg is None for k in node.keywords):
            return False
        args_ok = (all(pure_formatting(x, pure_helpers) for x in node.args) and
                   all(pure_formatting(k.value, pure_helpers) for k in node.keywords))
        f = node.func
        if isinstance(f, ast.Attribute) and is_self_attr(f, f.attr) and f.attr in pure_helpers:
            return args_ok
        if isinstance(f, ast.Attribute) and f.attr in PURE_STR_METHODS and not is_self_attr(f, f.attr):
            return args_ok and pure_formatting(f.value, pure_helpers)
        return False
    return False


def find_pure_helpers(fns):
    """methods `def m(self, ...): return <pure formatting expression>` (no decorators, no defaults that call anything)"""
    out = set()
    for name, fn in fns.items():
        body = strip_doc(fn.body)
        if (len(body) == 1 and isinstance(body[0], ast.Return) and body[0].value is not None and not fn.decorator_list
                and pure_formatting(body[0].value, set())):
            out.add(name)
    return out


def is_logger_stmt(st, pure_helpers):
    return (isinstance(st, ast.Expr) and isinstance(st.value, ast.Call) and isinstance(st.value.func, ast.Attribute)
            and is_self_attr(st.value.func.value, '_logger')
            and st.value.func.attr in ('debug', 'info', 'warning', 'error', 'exception', 'critical')
            and all(pure_formatting(x, pure_helpers) for x in st.value.args)
            and all(k.arg is not None and pure_formatting(k.value, pure_helpers) for k in st.value.keywords))


def canonical(fn, pure_helpers):
    """-> normalised deep copy of a FunctionDef (see the comment above)."""
    import copy as _copy
    fn = _copy.deepcopy(fn)
    fn.body = strip_doc(fn.body)

    # 1. logger statements are transparent
    def drop_loggers(body):
        out = []
        for st in body:
            if is_logger_stmt(st, pure_helpers):
                continue
            for field in ('body', 'orelse', 'finalbody'):
                if isinstance(getattr(st, field, None), list) and getattr(st, field) and isinstance(getattr(st, field)[0], ast.stmt):
                    setattr(st, field, drop_loggers(getattr(st, field)) or ([ast.Pass()] if field == 'body' else []))
            if isinstance(st, ast.Try):
                for h in st.handlers:
                    h.body = drop_loggers(h.body) or [ast.Pass()]
            out.append(st)
        return out
    fn.body = drop_loggers(fn.body) or [ast.Pass()]

    # 2. throw-away locals: `t = <name/attribute chain>` where t is read only inside the arguments of exception constructors
    def raise_arg_names(node):
        names = []
        for n in ast.walk(node):
            if isinstance(n, ast.Raise) and isinstance(n.exc, ast.Call):
                for x in list(n.exc.args) + [k.value for k in n.exc.keywords]:
                    names += [m for m in ast.walk(x) if isinstance(m, ast.Name) and isinstance(m.ctx, ast.Load)]
        return names
    in_raise = {id(n) for n in raise_arg_names(fn)}
    loads_elsewhere, stores = {}, {}
    for n in ast.walk(fn):
        if isinstance(n, ast.Name):
            if isinstance(n.ctx, ast.Load) and id(n) not in in_raise:
                loads_elsewhere[n.id] = loads_elsewhere.get(n.id, 0) + 1
            elif isinstance(n.ctx, ast.Store):
                stores[n.id] = stores.get(n.id, 0) + 1

    def chain(v):
        return isinstance(v, ast.Name) or (isinstance(v, ast.Attribute) and chain(v.value))

    def drop_throwaway(body):
        out = []
        for st in body:
            if (isinstance(st, ast.Assign) and len(st.targets) == 1 and isinstance(st.targets[0], ast.Name)
                    and chain(st.value) and stores.get(st.targets[0].id) == 1 and not loads_elsewhere.get(st.targets[0].id)):
                continue
            for field in ('body', 'orelse', 'finalbody'):
                if isinstance(getattr(st, field, None), list) and getattr(st, field) and isinstance(getattr(st, field)[0], ast.stmt):
                    setattr(st, field, drop_throwaway(getattr(st, field)) or ([ast.Pass()] if field == 'body' else []))
            if isinstance(st, ast.Try):
                for h in st.handlers:
                    h.body = drop_throwaway(h.body) or [ast.Pass()]
            out.append(st)
        return out
    fn.body = drop_throwaway(fn.body) or [ast.Pass()]

    # 3. parameters and locals up to renaming (in order of first binding)
    ren = {}
    for a in fn.args.posonlyargs + fn.args.args + fn.args.kwonlyargs:
        if a.arg != 'self':
            ren.setdefault(a.arg, 'v%d' % len(ren))
    class Binders(ast.NodeVisitor):
        def visit_Name(self, n):
            if isinstance(n.ctx, ast.Store):
                ren.setdefault(n.id, 'v%d' % len(ren))
        def visit_ExceptHandler(self, h):
            if h.name:
                ren.setdefault(h.name, 'v%d' % len(ren))
            self.generic_visit(h)
    Binders().visit(fn)
    for n in ast.walk(fn):
        if isinstance(n, ast.Name) and n.id in ren:
            n.id = ren[n.id]
        elif isinstance(n, ast.arg) and n.arg in ren:
            n.arg = ren[n.arg]
        elif isinstance(n, ast.ExceptHandler) and n.name in ren:
            n.name = ren[n.name]
    return fn


def same_shape(fn, expected_src, holes, pure_helpers=frozenset()):
    """Compare a function with an expected source text, both in canonical form; string constants named in `holes`
    ({placeholder text: key}) are extracted instead of compared; the expected name IGNORED stands for any pure
    formatting expression.  -> {key: actual string}"""
    exp = canonical(ast.parse(expected_src).body[0], pure_helpers)
    act = canonical(fn, pure_helpers)
    got = {}

    def walk(a, b, path):
        if isinstance(b, ast.Name) and b.id == 'IGNORED':
            if not (isinstance(a, ast.AST) and pure_formatting(a, pure_helpers)):
                raise Unrecognised('%s: %s is not a pure formatting expression' % (fn.name, path))
            return
        if isinstance(b, ast.Constant) and isinstance(b.value, str) and b.value in holes:
            if not (isinstance(a, ast.Constant) and isinstance(a.value, str)):
                raise Unrecognised('%s: expected a string constant at %s' % (fn.name, path))
            got[holes[b.value]] = a.value
            return
        if type(a) is not type(b):
            raise Unrecognised('%s: %s is %s, expected %s' % (fn.name, path, type(a).__name__, type(b).__name__))
        if isinstance(a, ast.AST):
            for f in a._fields:
                if f in ('lineno', 'col_offset', 'end_lineno', 'end_col_offset', 'ctx', 'type_comment', 'kind'):
                    continue
                walk(getattr(a, f, None), getattr(b, f, None), path + '.' + f)
        elif isinstance(a, list):
            if len(a) != len(b):
                raise Unrecognised('%s: %s has %d elements, expected %d' % (fn.name, path, len(a), len(b)))
            for k, (x, y) in enumerate(zip(a, b)):
                walk(x, y, '%s[%d]' % (path, k))
        elif a != b:
            raise Unrecognised('%s: %s is %r, expected %r' % (fn.name, path, a, b))

    walk(act.body, exp.body, 'body')
    walk(act.args, exp.args, 'args')
    return got


EXPECT_GET_OBJECT_TYPE = '''
def _get_object_type(self, unique_identifier):
    try:
        object_type = self._data_session.query(
            objects.ManagedObject._object_type
        ).filter(
            objects.ManagedObject.unique_identifier == unique_identifier
        ).one()[0]
    except exc.NoResultFound:
        raise exceptions.ItemNotFound(
            "@NOTFOUND".format(unique_identifier)
        )
    except exc.MultipleResultsFound as e:
        raise e

    class_type = self._object_map.get(object_type)
    if class_type is None:
        raise exceptions.InvalidField(IGNORED)

    return class_type
'''

EXPECT_GET_WITH_AC = '''
def _get_object_with_access_controls(self, uid, operation):
    object_type = self._get_object_type(uid)

    managed_object = self._data_session.query(object_type).filter(
        object_type.unique_identifier == uid
    ).one()

    is_allowed = self._is_allowed_by_operation_policy(
        managed_object.operation_policy_name,
        self._client_identity,
        managed_object._owner,
        managed_object.object_type,
        operation
    )
    if not is_allowed:
        raise exceptions.PermissionDenied(
            "@DENIED".format(uid)
        )

    return managed_object
'''

EXPECT_LIST_WITH_AC = '''
def _list_objects_with_access_controls(self, operation):
    managed_objects = None
    managed_objects_allowed = list()

    managed_objects = self._data_session.query(objects.ManagedObject).all()

    for managed_object in managed_objects:
        is_allowed = self._is_allowed_by_operation_policy(
            managed_object.operation_policy_name,
            self._client_identity,
            managed_object._owner,
            managed_object.object_type,
            operation
        )
        if is_allowed is True:
            managed_objects_allowed.append(managed_object)

    return managed_objects_allowed
'''


def fmt1(text, what):
    if text.count('{0}') + text.count('{}') != 1 or '{' in text.replace('{0}', '').replace('{}', ''):
        raise Unrecognised('%s: format %r does not have exactly one positional hole' % (what, text))
    hole = '{0}' if '{0}' in text else '{}'
    pre, suf = text.split(hole)
    return '{| f_prefix := %s; f_suffix := %s |}' % (cstr(pre), cstr(suf))


NOT_HANDLERS = {'_process_batch', '_process_operation', '_process_template_attribute'}


def uid_source_of(fn, call, parents):
    """Classify the first argument of a choke-point call."""
    arg = call.args[0]
    if not isinstance(arg, ast.Name):
        raise Unrecognised('%s: identifier argument %s' % (fn.name, ast.unparse(arg)))
    var = arg.id
    # all assignments to `var` in the handler
    assigns, loops = [], []
    for n in ast.walk(fn):
        if isinstance(n, ast.Assign):
            for t in n.targets:
                if isinstance(t, ast.Name) and t.id == var:
                    assigns.append(ast.unparse(n.value))
                elif any(isinstance(x, ast.Name) and x.id == var for x in ast.walk(t)):
                    raise Unrecognised('%s: %s assigned through %s' % (fn.name, var, ast.unparse(t)))
        elif isinstance(n, (ast.AugAssign, ast.AnnAssign, ast.NamedExpr, ast.With, ast.comprehension)):
            for x in ast.walk(n.target if hasattr(n, 'target') else n):
                if isinstance(x, ast.Name) and x.id == var and isinstance(x.ctx, ast.Store):
                    raise Unrecognised('%s: %s rebound by %s' % (fn.name, var, type(n).__name__))
        elif isinstance(n, ast.For):
            if isinstance(n.target, ast.Name) and n.target.id == var:
                loops.append(ast.unparse(n.iter))
    if loops:
        if loops != ['payload.unique_identifiers'] or assigns:
            raise Unrecognised('%s: %s bound by loops %r / assignments %r' % (fn.name, var, loops, assigns))
        # the call must be inside that loop
        if not any(isinstance(p, ast.For) and isinstance(p.target, ast.Name) and p.target.id == var for p in parents):
            raise Unrecognised('%s: choke point outside the loop binding %s' % (fn.name, var))
        return 'UEach'
    s = sorted(assigns)
    if s in (['payload.unique_identifier', 'self._id_placeholder'], ['payload.unique_identifier.value', 'self._id_placeholder']):
        # shape: placeholder unless the payload carries an identifier (both if/else and assign-then-override forms)
        ok = False
        for n in ast.walk(fn):
            if isinstance(n, ast.If) and ast.unparse(n.test) == 'payload.unique_identifier':
                body = [ast.unparse(x) for x in n.body]
                orelse = [ast.unparse(x) for x in n.orelse]
                want = ['%s = %s' % (var, [a for a in s if a.startswith('payload')][0])]
                if body == want and orelse in ([], ['%s = self._id_placeholder' % var]):
                    ok = True
        if not ok:
            raise Unrecognised('%s: identifier/placeholder selection has an unknown shape' % fn.name)
        return 'UPrimary'
    if s == ['key_info.unique_identifier']:
        src = [ast.unparse(n.value) for n in ast.walk(fn) if isinstance(n, ast.Assign)
               and any(isinstance(t, ast.Name) and t.id == 'key_info' for t in n.targets)]
        if src != ['key_wrapping_spec.encryption_key_information']:
            raise Unrecognised('%s: key_info comes from %r' % (fn.name, src))
        return 'UWrapKey'
    raise Unrecognised('%s: identifier %s comes from %r' % (fn.name, var, assigns))


def guard_of(fn, parents):
    tries = [p for p in parents if isinstance(p, ast.Try)]
    if not tries:
        return 'GNone'
    if len(tries) != 1:
        raise Unrecognised('%s: choke point inside nested try blocks' % fn.name)
    t = tries[0]
    if len(t.handlers) != 1 or t.orelse or t.finalbody:
        raise Unrecognised('%s: try block around the choke point has an unknown shape' % fn.name)
    h = t.handlers[0]
    if not (isinstance(h.type, ast.Name) and h.type.id == 'Exception' and len(h.body) == 1 and isinstance(h.body[0], ast.Raise)):
        raise Unrecognised('%s: except clause around the choke point: %s' % (fn.name, ast.unparse(h)))
    r = h.body[0].exc
    if not (isinstance(r, ast.Call) and ast.unparse(r.func) == 'exceptions.ItemNotFound' and len(r.args) == 1
            and isinstance(r.args[0], ast.Constant) and isinstance(r.args[0].value, str) and not r.keywords):
        raise Unrecognised('%s: except clause raises %s' % (fn.name, ast.unparse(h.body[0])))
    return '(GMaskNotFound %s)' % cstr(r.args[0].value)


def rollback_of_failed_item(fname, call, parents):
    """exactly: inside KmipEngine._process_batch, the statement `self._data_session.rollback()` (no arguments) that is
    the whole body of `if error_occurred:` (no else), inside the loop over the batch items"""
    if fname != '_process_batch' or call.args or call.keywords or len(parents) < 3:
        return False
    stmt, guard = parents[-1], parents[-2]
    return (isinstance(stmt, ast.Expr) and stmt.value is call
            and isinstance(guard, ast.If) and isinstance(guard.test, ast.Name) and guard.test.id == 'error_occurred'
            and guard.body == [stmt] and not guard.orelse
            and any(isinstance(p, ast.For) for p in parents))


def gen_handler_access_ops(repo):
    enums = importlib.import_module('kmip.core.enums')
    path = Path(repo) / 'kmip' / 'services' / 'server' / 'engine.py'
    tree = ast.parse(path.read_text())
    classes = [n for n in tree.body if isinstance(n, ast.ClassDef) and n.name == 'KmipEngine']
    if len(classes) != 1:
        raise Unrecognised('class KmipEngine not found exactly once')
    cls = classes[0]
    fns = {}
    for n in cls.body:
        if isinstance(n, (ast.FunctionDef, ast.AsyncFunctionDef)):
            if n.name in fns:
                raise Unrecognised('method %s defined twice' % n.name)
            fns[n.name] = n

    # --- the choke points themselves have the expected shape; extract their message formats
    for need in ('_get_object_type', '_get_object_with_access_controls', '_list_objects_with_access_controls',
                 '_process_operation', '_is_allowed_by_operation_policy'):
        if need not in fns:
            raise Unrecognised('method %s is missing' % need)
    pure_helpers = find_pure_helpers(fns)
    h1 = same_shape(fns['_get_object_type'], EXPECT_GET_OBJECT_TYPE, {'@NOTFOUND': 'notfound'}, pure_helpers)
    h2 = same_shape(fns['_get_object_with_access_controls'], EXPECT_GET_WITH_AC, {'@DENIED': 'denied'}, pure_helpers)
    same_shape(fns['_list_objects_with_access_controls'], EXPECT_LIST_WITH_AC, {}, pure_helpers)
    if 'notfound' not in h1 or 'denied' not in h2:
        raise Unrecognised('message formats of the choke point not found')

    # --- every write of the owner column / use of the choke points in the class
    handlers = []
    choke_names = ('_get_object_with_access_controls', '_list_objects_with_access_controls')
    for name, fn in fns.items():
        is_handler = name.startswith('_process_') and name not in NOT_HANDLERS
        parents_of = {}

        def index(node, chain):
            parents_of[id(node)] = chain
            for ch in ast.iter_child_nodes(node):
                index(ch, chain + [node])
        index(fn, [])
        sites, direct, owners, adds, sets_ph = [], 0, 0, 0, False
        for n in ast.walk(fn):
            if isinstance(n, ast.Attribute) and n.attr in choke_names and not (
                    isinstance(parents_of[id(n)][-1], ast.Call) and parents_of[id(n)][-1].func is n and is_self_attr(n, n.attr)):
                raise Unrecognised('%s: %s referenced other than by a direct call' % (name, n.attr))
            if isinstance(n, ast.Call) and isinstance(n.func, ast.Attribute) and n.func.attr in choke_names:
                if not is_handler:
                    raise Unrecognised('%s calls %s but is not a _process_ handler' % (name, n.func.attr))
                if n.keywords:
                    raise Unrecognised('%s: keyword arguments at a choke point' % name)
                if n.func.attr == '_get_object_with_access_controls':
                    if len(n.args) != 2:
                        raise Unrecognised('%s: choke point called with %d arguments' % (name, len(n.args)))
                    opv, opn = op_constant(n.args[1], enums)
                    src = uid_source_of(fn, n, parents_of[id(n)])
                    g = guard_of(fn, parents_of[id(n)])
                    sites.append((n.lineno, n.col_offset, 'SLoad %s %s %d (* %s *)' % (src, g, opv, opn)))
                else:
                    if len(n.args) != 1:
                        raise Unrecognised('%s: list choke point called with %d arguments' % (name, len(n.args)))
                    if any(isinstance(p, (ast.Try, ast.For, ast.While)) for p in parents_of[id(n)]):
                        raise Unrecognised('%s: list choke point inside try/loop' % name)
                    opv, opn = op_constant(n.args[0], enums)
                    sites.append((n.lineno, n.col_offset, 'SListAll %d (* %s *)' % (opv, opn)))
            if isinstance(n, ast.Call) and isinstance(n.func, ast.Attribute) and is_self_attr(n.func.value, '_data_session'):
                if n.func.attr == 'query':
                    direct += 1
                elif n.func.attr == 'add':
                    adds += 1
                elif n.func.attr in ('commit',):
                    pass
                elif n.func.attr == 'rollback' and rollback_of_failed_item(name, n, parents_of[id(n)]):
                    # _process_batch: `if error_occurred: self._data_session.rollback()` - discards what the failed item
                    # left uncommitted in the request's own session; it can neither reveal nor change anything that was
                    # committed, so it plays no part in the access decision (argued in notes/C03.md)
                    pass
                else:
                    raise Unrecognised('%s: self._data_session.%s' % (name, n.func.attr))
            if isinstance(n, (ast.Assign, ast.AugAssign, ast.AnnAssign)):
                targets = n.targets if isinstance(n, ast.Assign) else [n.target]
                for t in targets:
                    for x in ast.walk(t):
                        if isinstance(x, ast.Attribute) and x.attr in ('_owner', 'operation_policy_name', 'object_type', '_object_type', 'unique_identifier'):
                            if x.attr == '_owner' and isinstance(n, ast.Assign) and ast.unparse(n.value) == 'self._client_identity[0]' and is_handler:
                                owners += 1
                            else:
                                raise Unrecognised('%s: assignment %s' % (name, ast.unparse(n)))
                        if is_self_attr(x, '_id_placeholder'):
                            if not is_handler and name not in ('__init__', 'process_request'):
                                raise Unrecognised('%s assigns the ID placeholder' % name)
                            sets_ph = True
            if isinstance(n, ast.Call) and isinstance(n.func, ast.Name) and n.func.id == 'setattr':
                # the only generic attribute write: _set_attribute_on_managed_object with a field from a fixed menu
                if name != '_set_attribute_on_managed_object':
                    raise Unrecognised('%s uses setattr' % name)
        if is_handler:
            sites.sort()
            handlers.append((name, [s for _, _, s in sites], direct, owners, adds, sets_ph))
        elif name not in choke_names and name != '_get_object_type' and (direct or adds):
            raise Unrecognised('%s queries or adds to the data session outside a handler' % name)

    # the field menu of the generic setattr
    menu = set()
    for n in ast.walk(fns['_set_attribute_on_managed_object']):
        if isinstance(n, ast.Assign) and any(isinstance(t, ast.Name) and t.id == 'field' for t in n.targets):
            if isinstance(n.value, ast.Constant) and (n.value.value is None or isinstance(n.value.value, str)):
                if n.value.value is not None:
                    menu.add(n.value.value)
            else:
                raise Unrecognised('_set_attribute_on_managed_object: field = %s' % ast.unparse(n.value))
    if '_owner' in menu or 'owner' in menu:
        raise Unrecognised('_set_attribute_on_managed_object can write the owner column')

    # --- dispatch table of _process_operation
    disp = []
    node = strip_doc(fns['_process_operation'].body)
    if len(node) != 1 or not isinstance(node[0], ast.If):
        raise Unrecognised('_process_operation: unknown shape')
    cur = node[0]
    while True:
        t = cur.test
        if not (isinstance(t, ast.Compare) and isinstance(t.left, ast.Name) and t.left.id == 'operation'
                and len(t.ops) == 1 and isinstance(t.ops[0], ast.Eq)):
            raise Unrecognised('_process_operation: test %s' % ast.unparse(t))
        opv, opn = op_constant(t.comparators[0], enums)
        if len(cur.body) != 1 or not isinstance(cur.body[0], ast.Return):
            raise Unrecognised('_process_operation: branch for %s' % opn)
        c = cur.body[0].value
        if not (isinstance(c, ast.Call) and isinstance(c.func, ast.Attribute) and is_self_attr(c.func, c.func.attr)
                and len(c.args) == 1 and isinstance(c.args[0], ast.Name) and c.args[0].id == 'payload' and not c.keywords):
            raise Unrecognised('_process_operation: branch for %s is %s' % (opn, ast.unparse(c)))
        if c.func.attr not in {h[0] for h in handlers}:
            raise Unrecognised('_process_operation dispatches %s to unknown handler %s' % (opn, c.func.attr))
        disp.append((opv, opn, c.func.attr))
        if len(cur.orelse) == 1 and isinstance(cur.orelse[0], ast.If):
            cur = cur.orelse[0]
            continue
        if len(cur.orelse) != 1 or not isinstance(cur.orelse[0], ast.Raise):
            raise Unrecognised('_process_operation: final else')
        break
    if len({d[0] for d in disp}) != len(disp):
        raise Unrecognised('_process_operation: an operation is dispatched twice')
    undisp = {h[0] for h in handlers} - {d[2] for d in disp}
    if undisp:
        raise Unrecognised('handlers never dispatched: %r' % sorted(undisp))

    out = ['(* GENERATED from kmip/services/server/engine.py by translate/gen_policies.py (ast pass) - do not edit *)'] + HEADER
    out.append('(* _get_object_type / _get_object_with_access_controls / _list_objects_with_access_controls matched their expected shape *)')
    out.append('Definition notfound_format : fmt1 := %s.' % fmt1(h1['notfound'], 'ItemNotFound'))
    out.append('Definition denied_format : fmt1 := %s.' % fmt1(h2['denied'], 'PermissionDenied'))
    out.append('')
    out.append('Definition handler_access_ops : list handler_info := [')
    rows = []
    for name, sites, direct, owners, adds, sets_ph in sorted(handlers):
        rows.append('  {| h_name := %s;\n     h_sites := [%s];\n     h_direct_queries := %d; h_owner_assignments := %d; h_adds := %d; h_sets_placeholder := %s |}' % (
            cstr(name), ';\n                 '.join(sites), direct, owners, adds, 'true' if sets_ph else 'false'))
    out.append(';\n'.join(rows))
    out.append('].')
    out.append('')
    out.append('Definition dispatch : list (Z * string) := [')
    out.append(';\n'.join('  (%d (* %s *), %s)' % (v, n, cstr(h)) for v, n, h in disp))
    out.append('].')
    return '\n'.join(out) + '\n'


def generate(repo):
    return {'DefaultPolicies.v': gen_default_policies(repo),
            'HandlerAccessOps.v': gen_handler_access_ops(repo)}


if __name__ == '__main__':
    import sys
    for fn, text in generate(Path(sys.argv[1] if len(sys.argv) > 1 else '/repo')).items():
        print('=====', fn)
        print(text)
