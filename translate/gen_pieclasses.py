"""kmip/pie/objects.py, kmip/pie/factory.py, kmip/services/server/{engine,policy}.py -> gen/PieClasses.v  (tie T for C13).

What is extracted (all fail closed: anything unrecognised raises and the run reports a broken tie):

1. `object_map`      the literal `self._object_map = {...}` of KmipEngine.__init__ (ast): object type value -> stored class.
2. `class_attrs`     for every stored class, which of the Python attributes that engine.py reads or writes on a managed
                     object exist on an instance *loaded from the database* (class-level attribute: mapped column,
                     relationship, association proxy or property; attributes created only in __init__ do not count).
                     The attribute universe is computed from engine.py's AST (attribute accesses on the variables that
                     hold managed objects, hasattr literals, the `field = '...'` literals of _set_attribute_on_managed_object)
                     and must equal the list the Coq model knows (`model_fields`): a new access fails the translation.
3. `class_is_key`    issubclass(cls, pie.objects.Key)                  (MAC handler's isinstance test).
4. `core_has_key_block`  whether the kmip.core secret built for the object type has a key_block (Get with wrapping).
5. `policy_unknown`  behaviour of each AttributePolicy query on a name without a rule set: raises / answers False.
6. `convert_table`   outcome of pie.factory.ObjectFactory.convert on one canonical kmip.core secret per
                     (object type, key format type | certificate type, length consistent?, wrapping-data shape):
                     Ok or the site "file:function:Exception" of the non-KMIP exception it raises.
"""
import ast
import importlib
import traceback
from pathlib import Path

# python attributes of managed objects the Coq model (NoCrash/Model.v) knows how to place in a handler
MODEL_FIELDS = [
    '_object_type', '_owner', 'app_specific_info', 'certificate_type', 'cryptographic_algorithm', 'cryptographic_length',
    'cryptographic_usage_masks', 'data_type', 'initial_date', 'key_format_type', 'key_part_identifier', 'key_wrapping_data',
    'names', 'object_groups', 'object_type', 'opaque_type', 'operation_policy_name', 'prime_field_size', 'sensitive',
    'split_key_method', 'split_key_parts', 'split_key_threshold', 'state', 'unique_identifier', 'value']
OBJ_VARS = {'managed_object', 'obj', 'key', 'keying_object', 'alternate', 'wrapped_object', 'public_key', 'private_key'}
QUERIES = ['is_attribute_supported', 'is_attribute_deprecated', 'is_attribute_deletable_by_client',
           'is_attribute_modifiable_by_client', 'is_attribute_applicable_to_object_type', 'is_attribute_multivalued']


def _engine_fields(repo):
    src = (Path(repo) / 'kmip/services/server/engine.py').read_text()
    tree = ast.parse(src)
    fields = set()
    for node in ast.walk(tree):
        if isinstance(node, ast.Attribute) and isinstance(node.value, ast.Name) and node.value.id in OBJ_VARS:
            fields.add(node.attr)
        if isinstance(node, ast.Call) and isinstance(node.func, ast.Name) and node.func.id in ('hasattr', 'getattr', 'setattr'):
            if node.args and isinstance(node.args[0], ast.Name) and node.args[0].id in OBJ_VARS:
                a = node.args[1]
                if isinstance(a, ast.Constant) and isinstance(a.value, str):
                    fields.add(a.value)
                elif isinstance(a, ast.Name) and a.id == 'field':
                    pass      # the values of `field` are collected below
                else:
                    raise ValueError('engine.py: hasattr/getattr/setattr with a computed attribute name at line %d' % node.lineno)
        if isinstance(node, ast.Assign) and len(node.targets) == 1 and isinstance(node.targets[0], ast.Name) \
                and node.targets[0].id == 'field' and isinstance(node.value, ast.Constant) and isinstance(node.value.value, str):
            fields.add(node.value.value)
    # method-like names that are not data attributes of the stored object
    fields -= {'name', 'value_'}
    return tree, fields


def _object_map(tree):
    for node in ast.walk(tree):
        if isinstance(node, ast.Assign) and len(node.targets) == 1 and isinstance(node.targets[0], ast.Attribute) \
                and node.targets[0].attr == '_object_map':
            d = node.value
            if not isinstance(d, ast.Dict):
                raise ValueError('_object_map is not a dict literal')
            out = []
            for k, v in zip(d.keys, d.values):
                if not (isinstance(k, ast.Attribute) and isinstance(k.value, ast.Attribute) and k.value.attr == 'ObjectType'):
                    raise ValueError('_object_map key not of the form enums.ObjectType.X')
                if isinstance(v, ast.Constant) and v.value is None:
                    out.append((k.attr, None))
                elif isinstance(v, ast.Attribute) and isinstance(v.value, ast.Name) and v.value.id == 'objects':
                    out.append((k.attr, v.attr))
                else:
                    raise ValueError('_object_map value not of the form objects.Cls / None')
            return out
    raise ValueError('self._object_map assignment not found in engine.py')


def _site(e):
    frames = traceback.extract_tb(e.__traceback__)
    site = None
    for fr in frames:
        fn = fr.filename.replace('\\', '/')
        if '/kmip/' in fn and '/site-packages/' not in fn:
            site = '%s:%s' % (fn.split('/kmip/', 1)[1], fr.name)
    detail = ''
    if isinstance(e, AttributeError):
        import re
        m = re.search(r"has no attribute '(\w+)'", str(e))
        detail = '(%s)' % m.group(1) if m else ''
    return '%s:%s%s' % (site, type(e).__name__, detail)


def generate(repo):
    enums = importlib.import_module('kmip.core.enums')
    pobjects = importlib.import_module('kmip.pie.objects')
    pfactory = importlib.import_module('kmip.pie.factory')
    policy = importlib.import_module('kmip.services.server.policy')
    contents = importlib.import_module('kmip.core.messages.contents')
    csecrets = importlib.import_module('kmip.core.factories.secrets')
    cobjects = importlib.import_module('kmip.core.objects')
    cattrs = importlib.import_module('kmip.core.attributes')
    kexc = importlib.import_module('kmip.core.exceptions')

    tree, fields = _engine_fields(repo)
    extra = sorted(fields - set(MODEL_FIELDS))
    missing = sorted(set(MODEL_FIELDS) - fields)
    if extra:
        raise ValueError('engine.py reads managed-object attributes the C13 model does not know: %r' % extra)
    if missing:
        raise ValueError('C13 model fields no longer read by engine.py: %r' % missing)
    omap = _object_map(tree)

    out = ['(* GENERATED from kmip/pie/objects.py, kmip/pie/factory.py, kmip/services/server/engine.py and policy.py',
           '   by translate/gen_pieclasses.py - do not edit *)',
           'From Coq Require Import ZArith List String Bool.', 'Import ListNotations.', 'Open Scope Z_scope.', 'Open Scope string_scope.', '']
    rows = []
    classes = []
    for tname, cname in omap:
        tv = enums.ObjectType[tname].value
        rows.append('  (%d, %s)' % (tv, 'Some "%s"' % cname if cname else 'None'))
        if cname:
            cls = getattr(pobjects, cname)
            if not issubclass(cls, pobjects.ManagedObject):
                raise ValueError('%s is not a ManagedObject' % cname)
            classes.append((cname, cls))
    out.append('Definition object_map : list (Z * option string) := [\n' + ';\n'.join(rows) + '\n].')
    out.append('')
    out.append('Definition model_fields : list string := [%s].' % '; '.join('"%s"' % f for f in MODEL_FIELDS))
    out.append('')
    rows = []
    for cname, cls in classes:
        present = [f for f in MODEL_FIELDS if hasattr(cls, f)]
        rows.append('  ("%s", [%s])' % (cname, '; '.join('"%s"' % f for f in present)))
    out.append('Definition class_attrs : list (string * list string) := [\n' + ';\n'.join(rows) + '\n].')
    out.append('')
    out.append('Definition class_is_key : list (string * bool) := [%s].' % '; '.join(
        '("%s", %s)' % (c, 'true' if issubclass(k, pobjects.Key) else 'false') for c, k in classes))
    out.append('')
    sf = csecrets.SecretFactory()
    rows = []
    for tname, cname in omap:
        if cname is None:
            continue
        s = sf.create(enums.ObjectType[tname], None)
        rows.append('(%d, %s)' % (enums.ObjectType[tname].value, 'true' if hasattr(s, 'key_block') else 'false'))
    out.append('Definition core_has_key_block : list (Z * bool) := [%s].' % '; '.join(rows))
    out.append('')

    named = 0
    for m in enums.CryptographicUsageMask:
        named |= m.value
    out.append('(* the bits of a Cryptographic Usage Mask that have a name (all others are ignored when a mask is expanded) *)')
    out.append('Definition usage_mask_named : Z := %d.' % named)
    out.append('')

    # 5. policy queries on a name without a rule set
    ap = policy.AttributePolicy(contents.ProtocolVersion(1, 2))
    rows = []
    for q in QUERIES:
        fn = getattr(ap, q)
        args = ('x-no-such-attribute', enums.ObjectType.SYMMETRIC_KEY) if q == 'is_attribute_applicable_to_object_type' else ('x-no-such-attribute',)
        try:
            r = fn(*args)
            if r is not False:
                raise ValueError('%s answers %r for an unknown attribute name' % (q, r))
            rows.append('("%s", None)' % q)
        except ValueError:
            raise
        except Exception as e:
            rows.append('("%s", Some "%s")' % (q, _site(e)))
    out.append('(* None: the query answers False for a name without a rule set; Some site: it raises there *)')
    out.append('Definition policy_unknown : list (string * option string) := [%s].' % ';\n  '.join(rows))
    out.append('')

    # 6. ObjectFactory.convert on canonical secrets
    A = enums.CryptographicAlgorithm
    of = pfactory.ObjectFactory()
    defects = _probe_defects()
    # exception classes of the conversion that _process_register answers with a KmipError (repo commit 546e738)
    caught = (TypeError, ValueError) if dict(defects).get('register-convert') is False else ()

    def wrapdata(shape):
        if shape == 0:
            return None
        cpar = cattrs.CryptographicParameters(block_cipher_mode=enums.BlockCipherMode.NIST_KEY_WRAP)
        eki = {1: None, 2: cobjects.EncryptionKeyInformation('1', cpar), 3: cobjects.EncryptionKeyInformation('1', None),
               4: None, 5: None}[shape]
        mski = {1: None, 2: None, 3: None, 4: cobjects.MACSignatureKeyInformation('1', cpar),
                5: cobjects.MACSignatureKeyInformation('1', None)}[shape]
        return cobjects.KeyWrappingData(wrapping_method=enums.WrappingMethod.ENCRYPT, encryption_key_information=eki,
                                        mac_signature_key_information=mski, encoding_option=enums.EncodingOption.NO_ENCODING)

    def key_secret(t, kft, length_ok, shape):
        value = b'\x0f' * 16
        kw = dict(cryptographic_algorithm=A.AES, cryptographic_length=(128 if length_ok else 136), key_format_type=kft,
                  key_value=value, key_wrapping_data=None)
        if t == enums.ObjectType.SPLIT_KEY:
            kw.update(split_key_parts=3, key_part_identifier=1, split_key_threshold=2,
                      split_key_method=enums.SplitKeyMethod.XOR, prime_field_size=None)
        s = sf.create(t, kw)
        s.key_block.key_wrapping_data = wrapdata(shape)
        return s

    def outcome(thunk):
        try:
            r = thunk()
            if not isinstance(r, pobjects.ManagedObject):
                raise ValueError('convert returned %r' % (r,))
            return 'None'
        except kexc.KmipError:
            raise ValueError('ObjectFactory.convert raised a KmipError; the C13 model must be extended')
        except Exception as e:
            if isinstance(e, ValueError) and 'convert returned' in str(e):
                raise
            if isinstance(e, caught):
                return 'Some "kmip"'
            return 'Some "%s"' % _site(e)

    rows = []
    for t in (enums.ObjectType.SYMMETRIC_KEY, enums.ObjectType.PUBLIC_KEY, enums.ObjectType.PRIVATE_KEY, enums.ObjectType.SPLIT_KEY):
        for kft in enums.KeyFormatType:
            for length_ok in (True, False):
                for shape in range(6):
                    o = outcome(lambda: of.convert(key_secret(t, kft, length_ok, shape)))
                    rows.append('((%d, %d, %s, %d), %s)' % (t.value, kft.value, 'true' if length_ok else 'false', shape, o))
    out.append('(* ((object type, key format type, length consistent, wrapping-data shape), None = converted | Some site) ;')
    out.append('   shapes: 0 none, 1 empty, 2 encryption key info with parameters, 3 without, 4 MAC/signature key info with, 5 without *)')
    out.append('Definition convert_key_table : list ((Z * Z * bool * Z) * option string) := [\n  ' + ';\n  '.join(rows) + '\n].')
    out.append('')

    def missing_secret(t, missing):
        kft = enums.KeyFormatType.RAW if t in (enums.ObjectType.SYMMETRIC_KEY, enums.ObjectType.SPLIT_KEY) else enums.KeyFormatType.PKCS_1
        s = key_secret(t, kft, True, 0)
        if missing in (1, 3):
            s.key_block.cryptographic_algorithm = None
        if missing in (2, 3):
            s.key_block.cryptographic_length = None
        if missing == 4:
            s.key_block.key_value = None
        return s
    rows = []
    for t in (enums.ObjectType.SYMMETRIC_KEY, enums.ObjectType.PUBLIC_KEY, enums.ObjectType.PRIVATE_KEY, enums.ObjectType.SPLIT_KEY):
        for missing in (1, 2, 3, 4):
            o = outcome(lambda: of.convert(missing_secret(t, missing)))
            rows.append('((%d, %d), %s)' % (t.value, missing, o))
    out.append('(* ((object type, optional Key Block part left out: 1 algorithm, 2 length, 3 both, 4 key value), outcome) *)')
    out.append('Definition convert_missing_table : list ((Z * Z) * option string) := [\n  ' + ';\n  '.join(rows) + '\n].')
    out.append('')
    rows = []
    for ct in enums.CertificateType:
        o = outcome(lambda: of.convert(sf.create(enums.ObjectType.CERTIFICATE, {'certificate_type': ct, 'certificate_value': b'\x30' * 24})))
        rows.append('(%d, %s)' % (ct.value, o))
    out.append('Definition convert_cert_table : list (Z * option string) := [%s].' % '; '.join(rows))
    out.append('')
    rows = []
    for t, val in ((enums.ObjectType.SECRET_DATA, {'key_format_type': enums.KeyFormatType.OPAQUE, 'key_value': b'\x55' * 16,
                                                   'secret_data_type': enums.SecretDataType.PASSWORD}),
                   (enums.ObjectType.OPAQUE_DATA, {'opaque_data_type': enums.OpaqueDataType.NONE, 'opaque_data_value': b'\x66' * 16})):
        o = outcome(lambda: of.convert(sf.create(t, val)))
        rows.append('(%d, %s)' % (t.value, o))
    out.append('Definition convert_other_table : list (Z * option string) := [%s].' % '; '.join(rows))
    out.append('')
    # 8. the (operation, site) pairs of the known findings recorded for C13 (findings.d/C13.json), for the theorem statement
    import json
    fpath = Path(__file__).resolve().parents[1] / 'findings.d' / 'C13.json'
    rows = []
    if fpath.exists():
        for f in json.loads(fpath.read_text()):
            sig = f.get('signature', {})
            if f.get('status') != 'known' or f.get('property') != 'C13' or 'exc' not in sig or 'site' not in sig or 'op' not in sig:
                continue
            site = '%s:%s%s' % (sig['site'], sig['exc'], '(%s)' % sig['detail'] if sig.get('detail') else '')
            if '"' in site or '"' in f['id']:
                raise ValueError('quote in finding %r' % f['id'])
            rows.append('("%s", "%s", "%s")' % (f['id'], sig['op'], site))
    out.append('(* (finding id, operation, site) of every known finding of findings.d/C13.json whose signature names the exception *)')
    out.append('Definition known_finding_sites : list (string * string * string) := [\n  %s\n].' % ';\n  '.join(rows))
    out.append('')
    out.append('(* which unguarded uses the handlers still contain: each was probed with a canonical witness request against a')
    out.append('   scratch KmipEngine; true = the witness still answers GENERAL_FAILURE at the recorded site *)')
    out.append('Definition defect_present : list (string * bool) := [%s].' % ';\n  '.join(
        '("%s", %s)' % (n, 'true' if b else 'false') for n, b in defects))
    out.append('')
    return {'PieClasses.v': '\n'.join(out) + '\n'}


def _probe_defects():
    """Runs one canonical witness per unguarded use the C13 model knows (NoCrash/Model.v `defect`) on a scratch engine.
    Fail closed: a witness that answers GENERAL_FAILURE anywhere else than at its recorded site raises."""
    import shutil
    import tempfile
    from pathlib import Path
    import c13                      # harness/c13.py: request builders, engine driver with the WARNING capture
    E = c13.enums
    tmp = Path(tempfile.mkdtemp(prefix='c13probe'))

    class Ctx:
        work = tmp
    hp = {'hashing_algorithm': E.HashingAlgorithm.SHA_256}
    ENG = 'services/server/engine.py:'
    probes = [
        ('modify-unsupported-multivalued', (1, 2), 'SYMMETRIC_KEY', {'op': 'ModifyAttribute1', 'attr': {'name': 'Cryptographic Parameters', 'index': None}},
         ENG + '_process_modify_attribute:TypeError'),
        ('mac-stateless-object', (1, 2), 'OPAQUE_DATA', {'op': 'MAC', 'params': {'cryptographic_algorithm': E.CryptographicAlgorithm.HMAC_SHA256}, 'data': b'd'},
         ENG + '_process_mac:AttributeError(state)'),
        ('get-attribute-missing-field', (1, 2), 'CERTIFICATE', {'op': 'Locate', 'attrs': [{'name': 'Cryptographic Algorithm'}]},
         ENG + '_get_attribute_from_managed_object:AttributeError(cryptographic_algorithm)'),
        ('set-attribute-missing-field', (1, 2), None, {'op': 'Register', 'otype': 'CERTIFICATE', 'secret': {'type': 'CERTIFICATE'}, 'ta': c13.tmpl('Cryptographic Algorithm')},
         ENG + '_set_attribute_on_managed_object:AttributeError(cryptographic_algorithm)'),
        ('get-wrap-no-parameters', (1, 2), 'SYMMETRIC_KEY', {'op': 'Get', 'wrap': {'eki': {'uid': 'WK', 'params': None}, 'encoding': 'NO_ENCODING'}},
         ENG + '_process_get:AttributeError(block_cipher_mode)'),
        ('get-wrap-non-key', (1, 2), 'CERTIFICATE', {'op': 'Get', 'wrap': {'eki': {'uid': 'WK', 'params': {'block_cipher_mode': E.BlockCipherMode.NIST_KEY_WRAP}}, 'encoding': 'NO_ENCODING'}},
         ENG + '_process_get:AttributeError(key_block)'),
        ('derive-no-parameters', (1, 2), 'SYMMETRIC_KEY', {'op': 'DeriveKey', 'otype': 'SYMMETRIC_KEY', 'uids': ['T'], 'method': 'HASH', 'dp': {'params': None}, 'ta': c13.DERIVE_TA},
         ENG + '_process_derive_key:AttributeError(hashing_algorithm)'),
        ('delete-current-name', (2, 0), 'SYMMETRIC_KEY', {'op': 'DeleteAttribute2', 'current': {'name': 'Name'}, 'ref': None},
         ENG + '_delete_attribute_from_managed_object:AttributeError(value)'),
        ('register-convert', (1, 2), None, {'op': 'Register', 'otype': 'CERTIFICATE', 'secret': {'type': 'CERTIFICATE', 'cert_type': 'PGP'}, 'ta': c13.tmpl()},
         'pie/factory.py:_build_pie_certificate:TypeError'),
        ('get-attributes-empty-response', (2, 0), 'SYMMETRIC_KEY', {'op': 'GetAttributes', 'names': ['Certificate Type']},
         'core/messages/payloads/get_attributes.py:write:InvalidField'),
        ('register-bigint-overflow', (1, 2), None, {'op': 'Register', 'otype': 'SPLIT_KEY', 'secret': {'type': 'SPLIT_KEY', 'pfs': 2 ** 63}, 'ta': c13.tmpl()},
         ENG + '_process_register:OverflowError'),
        # not an internal-error site: does MAC accept an (active, MAC-capable) certificate as its key?  site None = "reaches the crypto engine"
        ('mac-accepts-any-type', (1, 2), 'CERTIFICATE', {'op': 'MAC', 'params': {'cryptographic_algorithm': E.CryptographicAlgorithm.HMAC_SHA256}, 'data': b'd'},
         None),
    ]
    out = []
    drv = c13.Driver(Ctx)
    try:
        for name, ver, ttype, req, site in probes:
            drv.reset()
            wk = c13.add_object(drv, c13.obj_spec('SYMMETRIC_KEY', 'Active', 'all'), 90)
            req = dict(req)
            if ttype is not None:
                t = c13.add_object(drv, c13.obj_spec(ttype, 'Active', 'all', names=1), 1)
                if 'uids' in req:
                    req['uids'] = [t]
                elif req['op'] != 'Locate':
                    req['uid'] = t
            if 'wrap' in req:
                req['wrap'] = {'eki': {'uid': wk, 'params': req['wrap']['eki']['params']}, 'encoding': 'NO_ENCODING'}
            obs = drv.run(c13.mk_item(req), ver)
            seen = c13.observed_site(obs)
            if site is None:
                if seen is not None:
                    raise ValueError('probe %s: unexpected internal error at %s' % (name, seen))
                out.append((name, bool(obs['crypto'])))
            elif seen is None:
                out.append((name, False))
            elif seen == site:
                out.append((name, True))
            else:
                raise ValueError('defect probe %s: GENERAL_FAILURE at %s, expected %s (the C13 model must be extended)' % (name, seen, site))
    finally:
        drv.close()
        shutil.rmtree(str(tmp), ignore_errors=True)
    return out
