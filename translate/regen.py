"""Tie T: regenerate coq/gen/*.v from the current /repo working tree.

Every generator module translate/gen_*.py exposes
    generate(repo: Path) -> {filename.v: text}
and must fail closed (raise) on anything it does not understand.  Files are only
rewritten when their text changed, so the Coq builder recompiles exactly what
depends on an edit of the source.
"""
import importlib
import sys
from pathlib import Path

HERE = Path(__file__).resolve().parent
GEN = HERE.parent / 'coq' / 'gen'


def generators():
    return sorted(p.stem for p in HERE.glob('gen_*.py'))


def regenerate(repo, only=None):
    sys.path.insert(0, str(HERE))
    info = {}
    errors = {}
    for name in generators():
        if only is not None and name[4:] not in only:
            continue
        try:
            mod = importlib.import_module(name)
            files = mod.generate(Path(repo))
        except Exception as e:
            errors[name] = '%s: %s' % (type(e).__name__, e)
            continue
        for fn, text in files.items():
            p = GEN / fn
            if not p.exists() or p.read_text() != text:
                p.write_text(text)
                info[fn] = 'rewritten'
            else:
                info[fn] = 'unchanged'
    if errors:
        raise RuntimeError('translation failed (fail-closed): %r' % errors)
    return info
