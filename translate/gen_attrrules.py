"""kmip/services/server/policy.py AttributePolicy -> gen/AttrRuleTable.v (reflection dump, fail closed).

Record per attribute name: flags, who may set it initially, implicitly-setting operations (enum values),
applicable object types (enum values), version added (major, minor), version deprecated (option).
The table is identical for every protocol version (the version only parameterises the queries); the
generator checks that and fails otherwise.
"""
import importlib


def _ver(v):
    return '(%d, %d)' % (v.major, v.minor)


def generate(repo):
    policy = importlib.import_module('kmip.services.server.policy')
    contents = importlib.import_module('kmip.core.messages.contents')
    tables = []
    for ver in [(1, 0), (1, 1), (1, 2), (1, 3), (1, 4), (2, 0)]:
        ap = policy.AttributePolicy(contents.ProtocolVersion(*ver))
        rows = []
        for name, rs in ap._attribute_rule_sets.items():
            fields = set(vars(rs))
            expected = {'always_has_value', 'initially_set_by', 'modifiable_by_server', 'modifiable_by_client',
                        'deletable_by_client', 'multiple_instances_permitted', 'implicitly_set_by',
                        'applies_to_object_types', 'version_added', 'version_deprecated'}
            if fields != expected:
                raise ValueError('AttributeRuleSet fields changed: %r' % sorted(fields ^ expected))
            for flag in ('always_has_value', 'modifiable_by_server', 'modifiable_by_client', 'deletable_by_client',
                         'multiple_instances_permitted'):
                if not isinstance(getattr(rs, flag), bool):
                    raise ValueError('%s.%s is not a bool' % (name, flag))
            if any(ord(c) < 32 or ord(c) > 126 or c == '"' for c in name):
                raise ValueError('unprintable attribute name %r' % name)
            rows.append((name, rs))
        tables.append(rows)
    first = tables[0]

    def key(rows):
        return [(n, r.always_has_value, tuple(r.initially_set_by), r.modifiable_by_server, r.modifiable_by_client,
                 r.deletable_by_client, r.multiple_instances_permitted, tuple(o.value for o in r.implicitly_set_by),
                 tuple(o.value for o in r.applies_to_object_types), _ver(r.version_added),
                 _ver(r.version_deprecated) if r.version_deprecated else None) for n, r in rows]
    for t in tables[1:]:
        if key(t) != key(first):
            raise ValueError('attribute rule table depends on the protocol version; translator must be extended')
    b = lambda x: 'true' if x else 'false'
    out = ['(* GENERATED from kmip/services/server/policy.py by translate/gen_attrrules.py - do not edit *)',
           'From Coq Require Import ZArith List String Bool.', 'Import ListNotations.', 'Open Scope Z_scope.', 'Open Scope string_scope.', '',
           'Record attr_rule := { ar_name : string; ar_always_has_value : bool; ar_set_by_server : bool; ar_set_by_client : bool;',
           '  ar_modifiable_by_server : bool; ar_modifiable_by_client : bool; ar_deletable_by_client : bool; ar_multivalued : bool;',
           '  ar_implicitly_set_by : list Z; ar_object_types : list Z; ar_version_added : Z * Z; ar_version_deprecated : option (Z * Z) }.', '',
           'Definition attr_rule_table : list attr_rule := [']
    rows = []
    for n, r in first:
        extra = set(r.initially_set_by) - {'server', 'client'}
        if extra:
            raise ValueError('unknown initially_set_by entries %r' % extra)
        rows.append('  {| ar_name := "%s"; ar_always_has_value := %s; ar_set_by_server := %s; ar_set_by_client := %s; '
                    'ar_modifiable_by_server := %s; ar_modifiable_by_client := %s; ar_deletable_by_client := %s; ar_multivalued := %s; '
                    'ar_implicitly_set_by := [%s]; ar_object_types := [%s]; ar_version_added := %s; ar_version_deprecated := %s |}' % (
                        n, b(r.always_has_value), b('server' in r.initially_set_by), b('client' in r.initially_set_by),
                        b(r.modifiable_by_server), b(r.modifiable_by_client), b(r.deletable_by_client), b(r.multiple_instances_permitted),
                        '; '.join(str(o.value) for o in r.implicitly_set_by), '; '.join(str(o.value) for o in r.applies_to_object_types),
                        _ver(r.version_added), ('Some ' + _ver(r.version_deprecated)) if r.version_deprecated else 'None'))
    out.append(';\n'.join(rows))
    out.append('].')
    out.append('')
    out.append('Definition find_rule (n : string) : option attr_rule := find (fun r => String.eqb (ar_name r) n) attr_rule_table.')
    return {'AttrRuleTable.v': '\n'.join(out) + '\n'}
