"""kmip/services/server/engine.py (+ server.py wiring) -> gen/EnginePolicy.v

Tie T for the engine's side of the policy store (property C18: "in force" is what the engine applies).
The three functions by which KmipEngine turns a policy name into an access decision are recognised only in
exactly the shape below (docstrings and self._logger calls stripped); then the Gallina text of the same
functions is emitted.  What the shape guarantees, and what every cache seeded so far broke (C18F, C03E, C14K,
C11F): get_relevant_policy_section reads `self._operation_policies.get(policy_name)` on EVERY call and none of
the three functions stores anything; `self._operation_policies` is bound once, in __init__, to the mapping
passed in (no copy), and is mentioned nowhere else in the module; server.py hands the SAME `self.policies` to
PolicyDirectoryMonitor and to KmipEngine.  Anything else: raise (fail closed).
"""
import ast
from pathlib import Path

EXPECTED = {
    '_is_allowed_by_operation_policy': ('self, policy_name, session_identity, object_owner, object_type, operation', '''session_user = session_identity[0]
session_groups = session_identity[1]
if session_groups is None:
    session_groups = [None]
for session_group in session_groups:
    allowed = self.is_allowed(policy_name, session_user, session_group, object_owner, object_type, operation)
    if allowed:
        return True
return False'''),
    'get_relevant_policy_section': ('self, policy_name, group=None', '''policy_bundle = self._operation_policies.get(policy_name)
if not policy_bundle:
    pass
    return None
if group is not None:
    groups_policy_bundle = policy_bundle.get('groups')
    if not groups_policy_bundle:
        pass
        return None
    else:
        group_policy = groups_policy_bundle.get(group)
        if not group_policy:
            pass
            return None
        else:
            return group_policy
else:
    return policy_bundle.get('preset')'''),
    'is_allowed': ('self, policy_name, session_user, session_group, object_owner, object_type, operation', '''policy_section = self.get_relevant_policy_section(policy_name, session_group)
if policy_section is None:
    return False
object_policy = policy_section.get(object_type)
if not object_policy:
    pass
    return False
operation_object_policy = object_policy.get(operation)
if not operation_object_policy:
    pass
    return False
if operation_object_policy == enums.Policy.ALLOW_ALL:
    return True
elif operation_object_policy == enums.Policy.ALLOW_OWNER:
    if session_user == object_owner:
        return True
    else:
        return False
elif operation_object_policy == enums.Policy.DISALLOW_ALL:
    return False
else:
    return False'''),
}

COQ = '''(* GENERATED from kmip/services/server/engine.py by translate/gen_enginepolicy.py - do not edit.
   Emitted only when get_relevant_policy_section, is_allowed and _is_allowed_by_operation_policy have exactly
   the recognised shape (see the generator): the store is read at request time, nothing is kept. *)
From Coq Require Import List Bool String.
From PK Require Import Monitor.Parse.
Import ListNotations.
Open Scope string_scope.

Fixpoint sget {V} (k : string) (l : list (string * V)) : option V :=
  match l with [] => None | (k', v) :: r => if String.eqb k k' then Some v else sget k r end.
Definition empty {A} (l : list A) : bool := match l with [] => true | _ => false end.

(* `not policy_bundle`: a dict without keys *)
Definition bundle_falsy (b : parsed) : bool :=
  match p_preset b, p_groups b with None, None => true | _, _ => false end.

(* get_relevant_policy_section; `lookup` is self._operation_policies.get(policy_name), evaluated by the caller
   on the store as it is at that moment *)
Definition relevant_section (lookup : option parsed) (group : option string) : option ppol :=
  match lookup with
  | None => None
  | Some b =>
      if bundle_falsy b then None else
      match group with
      | Some g =>
          match p_groups b with
          | None => None
          | Some gs => if empty gs then None else
                       match sget g gs with
                       | None => None
                       | Some gp => if empty gp then None else Some gp
                       end
          end
      | None => p_preset b
      end
  end.

(* is_allowed, after the section was looked up *)
Definition allowed_by_section (sec : option ppol) (object_type operation user owner : string) : bool :=
  match sec with
  | None => false
  | Some s =>
      match sget object_type s with
      | None => false
      | Some ops =>
          if empty ops then false else
          match sget operation ops with
          | None => false
          | Some perm =>
              if String.eqb perm "ALLOW_ALL" then true
              else if String.eqb perm "ALLOW_OWNER" then String.eqb user owner
              else false
          end
      end
  end.

(* _is_allowed_by_operation_policy: any of the requester's groups (no groups: the preset section) *)
Definition allowed_for_identity (lookup : option parsed) (object_type operation user owner : string)
                                (groups : option (list string)) : bool :=
  existsb (fun g => allowed_by_section (relevant_section lookup g) object_type operation user owner)
          (match groups with None => [None] | Some gs => map Some gs end).

Definition engine_lookup_form : string := "shared-store-read-on-every-call-nothing-kept".
'''


def _norm(fn):
    body = list(fn.body)
    if body and isinstance(body[0], ast.Expr) and isinstance(getattr(body[0], 'value', None), ast.Constant):
        body = body[1:]

    class Strip(ast.NodeTransformer):
        def visit_Expr(self, n):
            c = n.value
            if isinstance(c, ast.Call) and isinstance(c.func, ast.Attribute) and isinstance(c.func.value, ast.Attribute) \
                    and c.func.value.attr == '_logger' and isinstance(c.func.value.value, ast.Name) and c.func.value.value.id == 'self':
                return ast.Pass()
            return n
    return '\n'.join(ast.unparse(Strip().visit(st)) for st in body)


def generate(repo):
    repo = Path(repo)
    src = (repo / 'kmip/services/server/engine.py').read_text()
    tree = ast.parse(src)
    cls = [c for c in tree.body if isinstance(c, ast.ClassDef) and c.name == 'KmipEngine']
    if len(cls) != 1:
        raise ValueError('engine.py: expected one class KmipEngine')
    seen = {}
    for f in cls[0].body:
        if isinstance(f, ast.FunctionDef) and f.name in EXPECTED:
            if f.name in seen:
                raise ValueError('%s defined twice' % f.name)
            if f.decorator_list:
                raise ValueError('%s is decorated: %s' % (f.name, [ast.unparse(d) for d in f.decorator_list]))
            seen[f.name] = (ast.unparse(f.args), _norm(f))
    for name, exp in EXPECTED.items():
        if name not in seen:
            raise ValueError('KmipEngine.%s not found' % name)
        if seen[name] != exp:
            raise ValueError('KmipEngine.%s does not have the recognised shape (reads the shared store on every call, keeps '
                             'nothing):\n%s' % (name, seen[name][1]))
    # the store attribute: bound once to the mapping passed in, read only by get_relevant_policy_section
    uses = [n for n in ast.walk(tree) if isinstance(n, ast.Attribute) and n.attr == '_operation_policies']
    if len(uses) != 2:
        raise ValueError('engine.py mentions _operation_policies %d times (expected: the binding in __init__ and the read in '
                         'get_relevant_policy_section)' % len(uses))
    inits = [f for f in cls[0].body if isinstance(f, ast.FunctionDef) and f.name == '__init__']
    binds = [ast.unparse(s) for f in inits for s in ast.walk(f) if isinstance(s, ast.Assign)
             and any(isinstance(t, ast.Attribute) and t.attr == '_operation_policies' for t in s.targets)]
    if binds != ['self._operation_policies = policies']:
        raise ValueError('KmipEngine.__init__ does not bind the mapping it is given: %r' % binds)
    # names the three functions call must not have been redefined at module level as wrappers: they only call each other via self
    # server.py: monitor and engine get the same mapping object
    srv = ast.parse((repo / 'kmip/services/server/server.py').read_text())
    mon_args, eng_args = [], []
    for n in ast.walk(srv):
        if isinstance(n, ast.Call):
            fn = ast.unparse(n.func)
            if fn == 'monitor.PolicyDirectoryMonitor':
                mon_args.append([ast.unparse(a) for a in n.args])
            if fn == 'engine.KmipEngine':
                eng_args.append({k.arg: ast.unparse(k.value) for k in n.keywords})
    if len(mon_args) != 1 or len(mon_args[0]) < 2 or mon_args[0][1] != 'self.policies':
        raise ValueError('server.py: PolicyDirectoryMonitor is not given self.policies: %r' % mon_args)
    if len(eng_args) != 1 or eng_args[0].get('policies') != 'self.policies':
        raise ValueError('server.py: KmipEngine is not given policies=self.policies: %r' % eng_args)
    return {'EnginePolicy.v': COQ}
