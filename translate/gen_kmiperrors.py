"""KmipError classes and raise sites -> gen/KmipErrors.v (tie T for the response envelope, property C02).

* every subclass of kmip.core.exceptions.KmipError with the status / reason an instance carries
  (by reflection: instantiate with a probe message);
* every `raise <KmipError subclass>(...)` in the server, crypto engine, session and pie/factory code
  with a syntactic verdict whether the message can be the empty string.  `_process_batch` drops an
  empty Result Message (`if result_message:`), which would break the envelope, so a site whose
  message is not provably non-empty fails the obligation (fail closed: unknown shapes -> msg_nonempty false).
"""
import ast
import importlib
import inspect
import re
from pathlib import Path

FILES = ['kmip/services/server/engine.py', 'kmip/services/server/crypto/engine.py', 'kmip/services/server/session.py',
         'kmip/services/server/policy.py', 'kmip/services/server/auth/api.py', 'kmip/services/server/auth/slugs.py',
         'kmip/services/server/auth/utils.py', 'kmip/pie/factory.py', 'kmip/pie/objects.py', 'kmip/pie/sqltypes.py',
         'kmip/core/factories/secrets.py', 'kmip/core/factories/attributes.py', 'kmip/core/factories/attribute_values.py']


def literal_nonempty(node):
    """True when the expression is certainly a non-empty string."""
    if isinstance(node, ast.Constant) and isinstance(node.value, str):
        return len(node.value) > 0
    if isinstance(node, ast.JoinedStr):
        return any(isinstance(v, ast.Constant) and isinstance(v.value, str) and v.value for v in node.values)
    if isinstance(node, ast.Call) and isinstance(node.func, ast.Attribute) and node.func.attr == 'format':
        base = node.func.value
        if isinstance(base, ast.Constant) and isinstance(base.value, str):
            return len(re.sub(r'\{[^{}]*\}', '', base.value)) > 0
        return False
    if isinstance(node, ast.BinOp) and isinstance(node.op, ast.Add):
        return literal_nonempty(node.left) or literal_nonempty(node.right)
    if isinstance(node, ast.BinOp) and isinstance(node.op, ast.Mod):
        base = node.left
        if isinstance(base, ast.Constant) and isinstance(base.value, str):
            return len(re.sub(r'%[-#0 +]*\d*(?:\.\d+)?[a-zA-Z]', '', base.value)) > 0
    return False


def generate(repo):
    exc = importlib.import_module('kmip.core.exceptions')
    enums = importlib.import_module('kmip.core.enums')
    classes = {}
    for name, obj in vars(exc).items():
        if inspect.isclass(obj) and issubclass(obj, exc.KmipError):
            sig = inspect.signature(obj.__init__)
            params = [p for p in sig.parameters.values() if p.name != 'self']
            try:
                generic = [p.name for p in params] == ['status', 'reason', 'message']
                if generic:
                    # status / reason chosen by the raiser: recorded with the defaults when there are any
                    if all(p.default is not inspect._empty for p in params):
                        inst = obj(message='probe')
                        default_msg = str(obj())
                    else:
                        inst = obj(enums.ResultStatus.OPERATION_FAILED, enums.ResultReason.GENERAL_FAILURE, 'probe')
                        default_msg = None
                elif len(params) == 1:
                    inst = obj('probe')
                    default_msg = None if params[0].default is inspect._empty else str(obj())
                elif len(params) == 0:
                    inst = obj()
                    default_msg = str(inst)
                else:
                    raise ValueError('constructor shape of %s not understood: %s' % (name, sig))
            except TypeError as e:
                raise ValueError('cannot instantiate %s: %s' % (name, e))
            if not isinstance(inst.status, enums.ResultStatus) or not isinstance(inst.reason, enums.ResultReason):
                raise ValueError('%s carries a status/reason that is not an enumeration member' % name)
            classes[name] = (inst.status.value, inst.reason.value, default_msg, generic if 'generic' in dir() else False)
    sites = []
    for rel in FILES:
        path = Path(repo) / rel
        tree = ast.parse(path.read_text(), filename=str(path))
        for node in ast.walk(tree):
            if not isinstance(node, ast.Raise) or node.exc is None:
                continue
            call = node.exc
            if not isinstance(call, ast.Call):
                continue
            f = call.func
            cname = f.attr if isinstance(f, ast.Attribute) else (f.id if isinstance(f, ast.Name) else None)
            if cname not in classes:
                continue
            msg = None
            if call.args:
                msg = call.args[0] if cname != 'KmipError' else (call.args[2] if len(call.args) > 2 else None)
            for kw in call.keywords:
                if kw.arg == 'message':
                    msg = kw.value
            if classes[cname][3]:
                # generic class: status and reason are arguments; only the all-defaults form is understood
                ok = (not call.args and not call.keywords) and bool(classes[cname][2])
                if call.args or call.keywords:
                    kws = {kw.arg: kw.value for kw in call.keywords}
                    st = kws.get('status')
                    st_failed = (st is None or (isinstance(st, ast.Attribute) and st.attr == 'OPERATION_FAILED'
                                                and isinstance(st.value, ast.Attribute) and st.value.attr == 'ResultStatus'))
                    ok = (not call.args and set(kws) <= {'status', 'reason', 'message'} and st_failed
                          and 'message' in kws and literal_nonempty(kws['message']))
            elif msg is None:
                d = classes[cname][2]
                ok = bool(d)
            else:
                ok = literal_nonempty(msg)
            kind = 'lit' if ok else 'unknown'
            if not ok and isinstance(msg, ast.Call) and isinstance(msg.func, ast.Name) and msg.func.id == 'str' \
                    and len(msg.args) == 1 and isinstance(msg.args[0], ast.Name):
                kind = 'exctext'          # str(e) of a caught exception: text of a third-party library
            sites.append((rel, node.lineno, cname, ok, kind))
    b = lambda x: 'true' if x else 'false'
    out = ['(* GENERATED by translate/gen_kmiperrors.py from kmip/core/exceptions.py and the server sources - do not edit *)',
           'From Coq Require Import ZArith List String Bool.', 'Import ListNotations.', 'Open Scope Z_scope.', 'Open Scope string_scope.', '',
           '(* class name, status value, reason value *)',
           'Definition kmip_error_classes : list (string * Z * Z) := [',
           ';\n'.join('  ("%s", %d, %d)' % (n, s, r) for n, (s, r, _, _g) in sorted(classes.items())), '].', '',
           '(* file, line, class, message provably non-empty, shape of the message expression *)',
           'Inductive msg_shape := MLit | MExcText | MUnknown.',
           'Definition kmip_raise_sites : list (string * Z * string * bool * msg_shape) := [',
           ';\n'.join('  ("%s", %d, "%s", %s, %s)' % (f, l, c, b(ok), {'lit': 'MLit', 'exctext': 'MExcText', 'unknown': 'MUnknown'}[k])
                       for f, l, c, ok, k in sites), '].']
    return {'KmipErrors.v': '\n'.join(out) + '\n'}
